"""E6 pitfalls of the host's text predicates and number parsers.

`str.isdigit()`, `isdecimal()` and `isnumeric()` are true for superscripts and for the digits of every script;
`int()` and `float()` accept those digits too (not the superscripts: ValueError), and also surrounding white
space, a sign and `_` separators.  ECMAScript's numeric literal, quantifier, parseFloat and array-index
grammars are ASCII-only and have one canonical spelling.  Two structural rules follow:

* a function that collects characters with a Unicode digit predicate and hands the collected text to the host
  parser accepts text outside the grammar (and lets ValueError escape for superscripts);
* a property key is an element index only in its canonical spelling: a site that turns a key into an index with
  `int()` has to compare the spelling (or use a helper that does).
"""

from __future__ import annotations

import ast
from typing import Dict, List, Optional, Set, Tuple

from ..core import AnalysisError, Func, call_name, norm, short
from ..util import atoms, guards_of

_UNICODE_DIGIT_PREDICATES = ("isdigit", "isdecimal", "isnumeric")


def _host_parse_calls(f: Func) -> List[ast.Call]:
    """int(x) / int(x, base) / float(x) calls in f whose operand is text (a name that is built as a string)."""
    texty = _text_names(f)
    out = []
    for n in f.own_nodes():
        if isinstance(n, ast.Call) and isinstance(n.func, ast.Name) and n.func.id in ("int", "float") and n.args:
            a = n.args[0]
            if len(n.args) == 2 and n.func.id == "int":
                out.append(n)  # int(text, base) always parses text
            elif isinstance(a, ast.Name) and a.id in texty:
                out.append(n)
            elif isinstance(a, ast.Subscript) and isinstance(a.slice, ast.Slice):
                out.append(n)
            elif isinstance(a, ast.JoinedStr) or (isinstance(a, ast.Call) and isinstance(a.func, ast.Attribute) and a.func.attr == "join"):
                out.append(n)
    return out


def _text_names(f: Func) -> Set[str]:
    """Locals of f that hold text: assigned a string literal, a slice, a join, or grown with `+=`."""
    out: Set[str] = set()
    for n in f.own_nodes():
        if isinstance(n, ast.Assign) and len(n.targets) == 1 and isinstance(n.targets[0], ast.Name):
            v = n.value
            if (isinstance(v, ast.Constant) and isinstance(v.value, str)) or (isinstance(v, ast.Subscript) and isinstance(v.slice, ast.Slice)) or isinstance(v, ast.JoinedStr) or (isinstance(v, ast.Call) and isinstance(v.func, ast.Attribute) and v.func.attr in ("join", "strip", "lstrip", "rstrip", "lower", "upper")):
                out.add(n.targets[0].id)
            arms = [v.body, v.orelse] if isinstance(v, ast.IfExp) else [v]
            if any(isinstance(a, ast.Call) and call_name(a) in ("to_string", "str") for a in arms):
                out.add(n.targets[0].id)
        if isinstance(n, ast.AugAssign) and isinstance(n.op, ast.Add) and isinstance(n.target, ast.Name) and (isinstance(n.value, (ast.Call, ast.Subscript, ast.Name)) or (isinstance(n.value, ast.Constant) and isinstance(n.value.value, str))):
            # only when the name also starts as a string
            if any(isinstance(m, ast.Assign) and any(isinstance(t, ast.Name) and t.id == n.target.id for t in m.targets) and ((isinstance(m.value, ast.Constant) and isinstance(m.value.value, str)) or isinstance(m.value, ast.Name)) for m in f.own_nodes()):
                out.add(n.target.id)
    for p in getattr(f.node, "args", None).args if not isinstance(f.node, ast.Lambda) else []:
        if p.annotation is not None and norm(p.annotation) == "str":
            out.add(p.arg)
    return out


def _ascii_restricted(call: ast.Call, f: Func) -> bool:
    """The predicate call `x.isdigit()` sits in a condition that also restricts x to ASCII."""
    base = norm(call.func.value)
    top = call
    while isinstance(getattr(top, "_parent", None), (ast.BoolOp, ast.UnaryOp)):
        top = top._parent
    txt = norm(top)
    if f"{base}.isascii()" in txt:
        return True
    return any(pol and f"{base}.isascii()" in norm(t) for t, pol in guards_of(call, f.node))


def rule_ascii_digit_scanners(ctx, rep, rid: str, modules: Tuple[str, ...], floor: int = 1) -> None:
    rep.rule(rid, "a function that hands collected text to the host's int()/float() does not select that text with str.isdigit()/isdecimal()/isnumeric() (true for superscripts and the digits of every script) unless the character is also restricted to ASCII: numeric literals, quantifier counts and parseFloat prefixes are made of 0-9 only", floor=floor)
    n_fn = 0
    for f in ctx.tree.funcs:
        if isinstance(f.node, ast.Lambda) or not f.module.name.startswith(modules):
            continue
        parses = _host_parse_calls(f)
        if not parses:
            continue
        n_fn += 1
        preds = [n for n in f.own_nodes() if isinstance(n, ast.Call) and isinstance(n.func, ast.Attribute) and n.func.attr in _UNICODE_DIGIT_PREDICATES and not n.args]
        bad = [p for p in preds if not _ascii_restricted(p, f)]
        key = f"{f.qual}:digits-for-host-parser"
        if bad:
            p0 = bad[0]
            rep.bad(rid, key, f"{f.qual} selects characters with {norm(p0)} ({len(bad)} such test(s)) and parses the text with {short(parses[0], 30)}: superscript digits make the host parser raise ValueError out of eval, and digits of other scripts are accepted as if they were 0-9", f"{f.module.rel}:{p0.lineno}")
        else:
            rep.ok(rid, key, {"host_parse_calls": len(parses), "digit_predicates": len(preds)})
    if n_fn == 0:
        raise AnalysisError(f"no function that parses collected text with int()/float() found in {modules}")


def _canonical_helper(g: Func) -> bool:
    """g(key) returns int(key) only under a canonical-spelling test (ASCII digits without a leading zero, or
    str(int(key)) == key) and None / a failure value otherwise."""
    txt = " ; ".join(norm(s) for s in g.body())
    has_int = any(isinstance(n, ast.Call) and isinstance(n.func, ast.Name) and n.func.id == "int" for n in g.own_nodes())
    canon = (".isascii()" in txt and ".isdigit()" in txt and ("[0] != '0'" in txt or "startswith('0')" in txt)) or ("str(int(" in txt and "==" in txt)
    return has_int and canon


def rule_canonical_index_keys(ctx, rep, rid: str, floor: int = 4) -> None:
    rep.rule(rid, "a property key addresses an element only in its canonical spelling: wherever a key string is turned into an element index with int(), the spelling is compared (str(idx) == key) or the conversion is a helper that tests it; reads, writes and own-property tests therefore agree on what an index is", floor=floor)
    helpers = {id(g): g for g in ctx.tree.funcs if not isinstance(g.node, ast.Lambda) and g.module.name in ("values", "vm", "context") and g.parent is None and len(g.params()) == 1 and _canonical_helper(g)}
    n = 0
    for f in ctx.tree.funcs:
        if isinstance(f.node, ast.Lambda) or f.module.name not in ("vm", "context", "values") or id(f) in helpers:
            continue
        texty = None
        for c in f.own_nodes():
            if not isinstance(c, ast.Call):
                continue
            # a helper call: counted as a discharged site
            cs = ctx.cg.site_of_call.get(id(c))
            if cs is not None and cs.kind == "resolved" and cs.targets and all(id(t) in helpers for t in cs.targets):
                n += 1
                rep.ok(rid, f"{f.qual}:{short(c, 40)}", {"via": cs.targets[0].name})
                continue
            if not (isinstance(c.func, ast.Name) and c.func.id == "int" and len(c.args) == 1 and isinstance(c.args[0], ast.Name)):
                continue
            texty = texty if texty is not None else _text_names(f)
            k = c.args[0].id
            # the operand is a key: a name produced by to_string(key) / a str-annotated parameter named like a key
            if k not in texty or not any(w in k.lower() for w in ("key", "prop", "name", "index")):
                continue
            # the result indexes element storage
            p = getattr(c, "_parent", None)
            if not (isinstance(p, ast.Assign) and isinstance(p.targets[0], ast.Name)):
                continue
            idx = p.targets[0].id
            uses_elements = any(isinstance(x, ast.Call) and isinstance(x.func, ast.Attribute) and x.func.attr in ("get_index", "set_index") and any(isinstance(a, ast.Name) and a.id == idx for a in x.args) for x in f.own_nodes()) or any(isinstance(x, ast.Subscript) and isinstance(x.slice, ast.Name) and x.slice.id == idx for x in f.own_nodes()) or any(isinstance(x, ast.Compare) and isinstance(x.left, (ast.Constant, ast.Name)) and f"len(" in norm(x) and idx in norm(x) for x in f.own_nodes())
            if not uses_elements:
                continue
            n += 1
            key = f"{f.qual}:int({k})"
            txt = " ; ".join(norm(s) for s in f.own_nodes() if isinstance(s, (ast.If, ast.Compare)))
            if f"str({idx}) == {k}" in txt or f"{k} == str({idx})" in txt:
                rep.ok(rid, key, {"canonical": f"str({idx}) == {k}"})
            else:
                rep.bad(rid, key, f"{f.qual} turns the property key `{k}` into an element index with int() and never compares the spelling: \"01\", \"+1\", \" 1 \", \"1_0\" and digits of other scripts all address element 1 here, while the sites that do compare treat them as property names (a value stored under \"01\" cannot be read back)", f"{f.module.rel}:{c.lineno}")
    if not helpers and n == 0:
        raise AnalysisError("no key-to-index conversion found")


# ---- negative positions: Python counts them from the end ------------------------------------------------
_POSITION_METHODS = {"find": 1, "rfind": 1, "index": 1, "rindex": 1, "startswith": 1, "endswith": 1, "count": 1}


def _raw_integer_helpers(f: Func) -> Set[str]:
    """Names of sibling/enclosing local helper functions that return a script integer as it is
    (`return to_integer(args[i], default) if len(args) > i else default`, or the same with an early
    `return default`), i.e. possibly negative."""
    out: Set[str] = set()
    g = f.parent
    while g is not None:
        for name, h in g.children.items():
            if isinstance(h.node, ast.Lambda):
                continue
            rets = [r.value for r in h.own_nodes() if isinstance(r, ast.Return) and r.value is not None]
            arms = []
            for v in rets:
                arms += [v.body, v.orelse] if isinstance(v, ast.IfExp) else [v]
            if any(isinstance(a, ast.Call) and call_name(a) == "to_integer" for a in arms):
                out.add(name)
        g = g.parent
    return out


def _clamping_helpers(ctx) -> Set[str]:
    """Module-level helpers every result of which is provably >= 0: `return max(0, ..)`, or `return min(p, q)` on the
    path where the parameter p was found not negative and q receives a length (len(..) / .length / a local bound to
    one) at every call site."""
    cached = getattr(ctx, "_clamping_helpers", None)
    if cached is not None:
        return cached
    from ..util import atoms, known_conditions

    out: Set[str] = set()
    for f in ctx.tree.funcs:
        if f.parent is not None or f.cls is not None or isinstance(f.node, ast.Lambda) or f.module.name not in ("values", "vm", "context"):
            continue
        rets = [r for r in f.own_nodes() if isinstance(r, ast.Return) and r.value is not None]
        if not rets:
            continue
        params = f.params()

        def nonneg(e: ast.AST, at: ast.AST) -> bool:
            if isinstance(e, ast.Constant) and isinstance(e.value, int) and e.value >= 0:
                return True
            if isinstance(e, ast.Call) and norm(e.func) == "max" and any(isinstance(a, ast.Constant) and a.value == 0 for a in e.args):
                return True
            if isinstance(e, ast.Call) and norm(e.func) == "len":
                return True
            if isinstance(e, ast.Call) and norm(e.func) == "min":
                return all(nonneg(a, at) for a in e.args)
            if isinstance(e, ast.Name) and e.id in params:
                ats = [(norm(a).replace(" ", ""), p) for t, pol in known_conditions(at, f.node) for a, p in atoms(t, pol)]
                if any((a in (f"{e.id}<0", f"0>{e.id}") and not p) or (a in (f"{e.id}>=0", f"0<={e.id}") and p) for a, p in ats):
                    return True
                # a length parameter: every call site passes len(..), an attribute called length, or such a local
                idx = params.index(e.id)
                sites = [c for g in ctx.tree.funcs for c in g.own_nodes() if isinstance(c, ast.Call) and isinstance(c.func, ast.Name) and c.func.id == f.name and g is not f]
                if not sites:
                    return False
                for c in sites:
                    if idx >= len(c.args):
                        return False
                    a = c.args[idx]
                    t = norm(a)
                    if not (t.startswith("len(") or t.endswith(".length") or t == "length" or t.endswith("_len") or t == "size"):
                        return False
                return True
            return False

        if all(nonneg(r.value, r) for r in rets):
            out.add(f.name)
    ctx._clamping_helpers = out
    return out


def rule_backward_search_start(ctx, rep, rid: str) -> None:
    """A search that runs BACKWARDS from a script-supplied index (`for i in range(start, -1, -1)`) has nothing to
    search when that index, counted back from the end, is still negative.  Clamping it to 0 (the right thing for a
    forward search or a slice bound) makes the loop inspect element 0: [1,2,3].lastIndexOf(1, -4) must be -1."""
    rep.rule(rid, "the start of a backward scan over the elements (a descending range down to 0) that comes from a script integer is not clamped up to 0 on its way there (max(0, ..) or a clamping helper): a start that is still negative after counting from the end means an empty search, not a search of element 0", floor=1)
    clampers = _clamping_helpers(ctx)
    n = 0
    for f in ctx.tree.funcs:
        if isinstance(f.node, ast.Lambda) or f.module.name not in ("vm", "context"):
            continue
        ints = {}
        for a in f.own_nodes():
            if isinstance(a, ast.Assign) and len(a.targets) == 1 and isinstance(a.targets[0], ast.Name):
                arms = [a.value.body, a.value.orelse] if isinstance(a.value, ast.IfExp) else [a.value]
                if any(isinstance(x, ast.Call) and call_name(x) == "to_integer" for arm in arms for x in ast.walk(arm)):
                    ints.setdefault(a.targets[0].id, a.lineno)
        if not ints:
            continue
        for loop in f.own_nodes():
            if not (isinstance(loop, ast.For) and isinstance(loop.iter, ast.Call) and norm(loop.iter.func) == "range" and len(loop.iter.args) == 3):
                continue
            a0, a1, a2 = loop.iter.args
            if not (norm(a2).replace(" ", "") == "-1" and norm(a1).replace(" ", "") == "-1"):
                continue
            used = [x.id for x in ast.walk(a0) if isinstance(x, ast.Name) and x.id in ints]
            for v in used:
                n += 1
                key = f"{f.qual}:{v}:backward-scan"
                clamp = None
                for a in f.own_nodes():
                    if isinstance(a, ast.Assign) and len(a.targets) == 1 and isinstance(a.targets[0], ast.Name) and a.targets[0].id == v and ints[v] < a.lineno < loop.lineno:
                        t = norm(a.value).replace(" ", "")
                        if t.startswith("max(0,") or (isinstance(a.value, ast.Call) and isinstance(a.value.func, ast.Name) and a.value.func.id in clampers):
                            clamp = a
                if clamp is None:
                    rep.ok(rid, key)
                else:
                    rep.bad(rid, key, f"{f.qual} scans backwards from `{v}` (line {loop.lineno}) after clamping it up to 0 with `{short(clamp.value, 40)}` (line {clamp.lineno}): an index that is still negative after counting from the end means there is nothing to search (the result is -1), but the clamped 0 makes the scan inspect element 0 ([1,2,3].lastIndexOf(1, -4) gives 0)", f"{f.module.rel}:{clamp.lineno}")
    if n < 1:
        raise AnalysisError(f"{rid}: no backward scan from a script integer found")


def rule_negative_positions(ctx, rep, rid: str, modules: Tuple[str, ...] = ("vm", "context", "values"), floor: int = 10, only=None) -> None:
    """A script integer (the result of to_integer) that is used as a Python slice bound, as the start/end position
    of str.find/startswith/..., or as a subscript has to be made non-negative first: Python reads -1 as "one from
    the end", ECMAScript clamps positions to 0 (or has its own rule for negative arguments)."""
    rep.rule(rid, "an integer taken from a script argument is not used as a host slice bound, search position or subscript while it can still be negative (Python would count it from the end): it is clamped with max(0, ..), re-based under `if i < 0`, or range-tested first", floor=floor)
    n_uses = 0
    for f in ctx.tree.funcs:
        if isinstance(f.node, ast.Lambda) or f.module.name not in modules or (only is not None and not only(f.qual)):
            continue
        ints: Dict[str, int] = {}
        raw_helpers = _raw_integer_helpers(f)
        for n in f.own_nodes():
            if isinstance(n, ast.Assign) and len(n.targets) == 1 and isinstance(n.targets[0], ast.Name):
                arms = [n.value.body, n.value.orelse] if isinstance(n.value, ast.IfExp) else [n.value]
                if any(isinstance(a, ast.Call) and (call_name(a) == "to_integer" or (isinstance(a.func, ast.Name) and a.func.id in raw_helpers)) for a in arms):
                    ints.setdefault(n.targets[0].id, n.lineno)
        if not ints:
            continue
        # sanitising statements per local: (line, kind)
        san: Dict[str, List[int]] = {k: [] for k in ints}
        clampers = _clamping_helpers(ctx)
        for n in f.own_nodes():
            if isinstance(n, ast.Assign) and len(n.targets) == 1 and isinstance(n.targets[0], ast.Name) and n.targets[0].id in ints:
                v = norm(n.value).replace(" ", "")
                if v.startswith("max(0,") or v.startswith("min(max(") or ",0)" in v and v.startswith("max("):
                    san[n.targets[0].id].append(n.lineno)
                if isinstance(n.value, ast.Call) and isinstance(n.value.func, ast.Name) and n.value.func.id in clampers:
                    san[n.targets[0].id].append(n.lineno)
            if isinstance(n, ast.If):
                t = norm(n.test).replace(" ", "")
                for k in ints:
                    if t in (f"{k}<0", f"0>{k}") and (any(isinstance(b, ast.Assign) and any(isinstance(tg, ast.Name) and tg.id == k for tg in b.targets) for b in n.body) or (n.body and isinstance(n.body[-1], (ast.Return, ast.Raise, ast.Continue, ast.Break)))):
                        san[k].append(n.lineno)
                    # `if k < 0 or ...: raise/return`
                    if f"{k}<0" in t and n.body and isinstance(n.body[-1], (ast.Return, ast.Raise, ast.Continue, ast.Break)) and " and " not in norm(n.test):
                        san[k].append(n.lineno)

        def guarded(use: ast.AST, k: str) -> bool:
            for t, pol in guards_of(use, f.node):
                tt = norm(t).replace(" ", "")
                if pol and (f"0<={k}" in tt or f"{k}>=0" in tt or f"{k}>0" in tt or f"0<{k}" in tt):
                    return True
                if not pol and tt in (f"{k}<0", f"0>{k}"):
                    return True
            return False

        for n in f.own_nodes():
            uses: List[Tuple[ast.AST, str, str]] = []
            if isinstance(n, ast.Subscript) and isinstance(n.slice, ast.Slice):
                for part, what in ((n.slice.lower, "slice start"), (n.slice.upper, "slice end")):
                    if part is not None:
                        for x in ast.walk(part):
                            if isinstance(x, ast.Name) and x.id in ints:
                                uses.append((n, x.id, what))
            elif isinstance(n, ast.Subscript) and isinstance(n.slice, ast.Name) and n.slice.id in ints:
                uses.append((n, n.slice.id, "subscript"))
            elif isinstance(n, ast.Call) and isinstance(n.func, ast.Attribute) and n.func.attr in _POSITION_METHODS:
                for a in n.args[_POSITION_METHODS[n.func.attr]:]:
                    for x in ast.walk(a):
                        if isinstance(x, ast.Name) and x.id in ints:
                            uses.append((n, x.id, f"position argument of .{n.func.attr}()"))
            for use, k, what in uses:
                if use.lineno <= ints[k]:
                    continue
                n_uses += 1
                key = f"{f.qual}:{k}:{what}:{short(use, 30)}"
                if any(ints[k] < ln <= use.lineno for ln in san[k]) or guarded(use, k):
                    rep.ok(rid, key)
                else:
                    rep.bad(rid, key, f"{f.qual} uses the script integer `{k}` (to_integer, line {ints[k]}) as a {what} in `{short(use, 50)}` while it can be negative: Python counts a negative position from the end (\"abc\".startsWith(\"c\", -1) is then true), ECMAScript clamps it to 0", f"{f.module.rel}:{use.lineno}")
    rep.analysed["script_integer_positions"] = n_uses


# ---- sibling natives that the specification defines by the same steps ----------------------------------
SIBLING_INDEX_READERS = [("charAt", "charCodeAt")]  # both: pos = ToIntegerOrInfinity(arg); outside [0, size) -> "" / NaN


def rule_sibling_index_readers(ctx, rep, rid: str) -> None:
    """charAt and charCodeAt differ only in what they return: the index conversion and the range test are the same
    steps of the specification.  A divergence (one clamps, the other tests; one-sided against two-sided range test)
    means one of them is wrong."""
    rep.rule(rid, "sibling string natives that share their argument steps (charAt / charCodeAt) guard the element read with the same range test on the converted index", floor=1)
    by_name = {f.name: f for f in ctx.tree.funcs if f.parent is not None and f.parent.name == "_make_string_method"}
    for a, b in SIBLING_INDEX_READERS:
        fa, fb = by_name.get(a), by_name.get(b)
        if fa is None or fb is None:
            raise AnalysisError(f"string natives {a}/{b} not found")

        def shape(f: Func) -> Tuple[str, str]:
            sub = next((n for n in f.own_nodes() if isinstance(n, ast.Subscript) and isinstance(n.ctx, ast.Load) and isinstance(n.slice, ast.Name) and isinstance(n.value, ast.Name) and n.value.id == "s"), None)
            if sub is None:
                return ("?", "?")
            idx = sub.slice.id
            conv = next((norm(n.value) for n in f.own_nodes() if isinstance(n, ast.Assign) and any(isinstance(t, ast.Name) and t.id == idx for t in n.targets)), "?")
            guard = " and ".join(sorted(norm(t).replace(idx, "$i") for t, pol in guards_of(sub, f.node) if pol))
            return (conv, guard)

        sa_, sb_ = shape(fa), shape(fb)
        key = f"{a}/{b}:index-steps"
        if sa_[1] == sb_[1] and "?" not in sa_ and "?" not in sb_:
            # the same range test around the element read; a differently spelled conversion alone is not a disagreement
            rep.ok(rid, key, {"conversion": [sa_[0], sb_[0]], "guard": sa_[1]})
        else:
            rep.bad(rid, key, f"{a} converts its index with `{sa_[0]}` under `{sa_[1]}` but {b} with `{sb_[0]}` under `{sb_[1]}`: the specification gives both the same steps (ToIntegerOrInfinity, then a two-sided range test), so for some argument (a negative one, say) one of them answers for the wrong position", fb.loc)


# ---- the host's white space is not ECMAScript's ---------------------------------------------------------
def rule_script_whitespace(ctx, rep, rid: str, only=None) -> None:
    """str.strip()/lstrip()/rstrip()/split() without an argument and str.isspace() use the host's white-space set:
    it includes U+001C..U+001F and U+0085, which ECMAScript does not trim, and lacks U+FEFF, which it does."""
    rep.rule(rid, "script strings are never trimmed or split on white space with the host's default set (bare str.strip/lstrip/rstrip/split, str.isspace): ECMAScript's WhiteSpace and LineTerminator set differs from it in both directions", floor=1)
    ctl = ast.parse("def f(s):\n    return s.strip()\n")
    if not [n for n in ast.walk(ctl) if isinstance(n, ast.Call) and isinstance(n.func, ast.Attribute) and n.func.attr == "strip" and not n.args]:
        raise AnalysisError("positive control failed")
    n_sites = 0
    for f in ctx.tree.funcs:
        if isinstance(f.node, ast.Lambda) or f.module.name not in ("vm", "context", "values") or (only is not None and not only(f.qual)):
            continue
        for n in f.own_nodes():
            if isinstance(n, ast.Call) and isinstance(n.func, ast.Attribute) and n.func.attr in ("strip", "lstrip", "rstrip", "split", "isspace"):
                if n.func.attr == "split" and (n.args or n.keywords):
                    continue
                n_sites += 1
                key = f"{f.qual}:{short(n, 40)}"
                if n.func.attr != "isspace" and n.args:
                    rep.ok(rid, key, {"set": short(n.args[0], 30)})
                else:
                    rep.bad(rid, key, f"{f.qual} uses {short(n, 40)}: the host's white-space set keeps U+FEFF and removes U+001C..U+001F, unlike ECMAScript's (\"\\ufeffa\".trim() keeps the BOM)", f"{f.module.rel}:{n.lineno}")
    rep.ok(rid, "whitespace-sites", {"examined": n_sites})


def rule_includes_same_value_zero(ctx, rep, rid: str) -> None:
    """Array.prototype.includes compares with SameValueZero (NaN is found); indexOf with strict equality."""
    rep.rule(rid, "the includes natives of arrays treat NaN as equal to NaN (SameValueZero) on top of the strict comparison they share with indexOf", floor=1)
    n = 0
    for f in ctx.tree.funcs:
        if f.name not in ("includes_fn",) or f.parent is None or "array" not in f.parent.name.lower():
            continue
        n += 1
        key = f"{f.qual}:NaN"
        txt = " ; ".join(norm(s_) for s_ in f.body())
        if "is_nan(" in txt or "math.isnan(" in txt or " != " in txt and any(isinstance(c, ast.Compare) and isinstance(c.ops[0], ast.NotEq) and norm(c.left) == norm(c.comparators[0]) for c in f.own_nodes()):
            rep.ok(rid, key)
        else:
            rep.bad(rid, key, f"{f.qual} compares elements with strict equality only: NaN === NaN is false, so [NaN].includes(NaN) is false although includes is specified with SameValueZero", f.loc)
    if n == 0:
        raise AnalysisError("array includes native not found")


# ---- text handed to the host's int()/float() was admitted character by character -------------------------
def _admitting(test: ast.AST, pol: bool) -> bool:
    """Does this condition, known to hold, admit a character by looking at it: `c in "0123"`, `c == "."`,
    `_is_digit(c)`, `c.isdigit()` (restricted elsewhere)?"""
    for a, p in atoms(test, pol):
        if isinstance(a, ast.Compare) and len(a.ops) == 1 and isinstance(a.comparators[0], ast.Constant) and isinstance(a.comparators[0].value, str):
            if (isinstance(a.ops[0], (ast.In, ast.Eq)) and p) or (isinstance(a.ops[0], (ast.NotIn, ast.NotEq)) and not p):
                return True
        if isinstance(a, ast.Call) and p and (norm(a.func).split(".")[-1] in ("_is_digit", "isdigit", "_is_hex_digit", "_is_identifier_part", "_is_identifier_start")):
            return True
    return False


def rule_host_parser_text_admitted(ctx, rep, rid: str, modules: Tuple[str, ...] = ("lexer", "parser", "regex.parser"), floor: int = 4) -> None:
    """int(text, base) and float(text) accept more than any ECMAScript literal: a sign, surrounding blanks,
    underscores between digits, digits of other scripts.  Source text handed to them has to be admitted character by
    character first: every character appended to the collected text sits under a test of that character against
    constants, or the text is checked by a loop that rejects anything outside a constant set."""
    rep.rule(rid, "in the front end, text handed to the host's int()/float() was admitted character by character: every `text += <next character>` sits under a test of that character against constants (membership, equality, the ASCII digit predicate), or a loop over the text rejects everything outside a constant set before the conversion: the host's number grammar (sign, blanks, underscores) never decides what a literal or an escape is", floor=floor)
    n = 0
    for f in ctx.tree.funcs:
        if isinstance(f.node, ast.Lambda) or not f.module.name.startswith(modules):
            continue
        for c in f.own_nodes():
            if not (isinstance(c, ast.Call) and isinstance(c.func, ast.Name) and c.func.id in ("int", "float") and c.args):
                continue
            a0 = c.args[0]
            if isinstance(a0, ast.BoolOp):
                a0 = a0.values[0]
            if not isinstance(a0, ast.Name):
                continue
            t = a0.id
            # follow `t = u.lstrip(..)` / `t = u` / `t = u or "0"` to the collected text
            seen = set()
            while t not in seen:
                seen.add(t)
                src = [a.value for a in f.own_nodes() if isinstance(a, ast.Assign) and any(isinstance(x, ast.Name) and x.id == t for x in a.targets)]
                nxt = None
                for v in src:
                    if isinstance(v, ast.BoolOp):
                        v = v.values[0]
                    if isinstance(v, ast.Call) and isinstance(v.func, ast.Attribute) and v.func.attr in ("lstrip", "rstrip", "strip", "lower", "upper") and isinstance(v.func.value, ast.Name):
                        nxt = v.func.value.id
                    elif isinstance(v, ast.Name):
                        nxt = v.id
                if nxt is None:
                    break
                t = nxt
            names = seen | {t}
            n += 1
            key = f"{f.qual}:{short(c, 30)}"
            # (b) a validating loop over the text
            validated = False
            for loop in f.own_nodes():
                if isinstance(loop, ast.For) and isinstance(loop.iter, ast.Name) and loop.iter.id in names and isinstance(loop.target, ast.Name) and loop.lineno < c.lineno:
                    lv = loop.target.id
                    for i in loop.body:
                        if isinstance(i, ast.If) and isinstance(i.test, ast.Compare) and len(i.test.ops) == 1 and isinstance(i.test.ops[0], ast.NotIn) and norm(i.test.left) == lv and isinstance(i.test.comparators[0], ast.Constant) and i.body and isinstance(i.body[-1], (ast.Return, ast.Raise)):
                            validated = True
            if validated:
                rep.ok(rid, key, {"admitted_by": "a loop that rejects every character outside a constant set"})
                continue
            # (a) every append of a character is under an admitting test
            appends = [a for a in f.own_nodes() if isinstance(a, ast.AugAssign) and isinstance(a.target, ast.Name) and a.target.id in names and isinstance(a.op, ast.Add)]
            params = set(f.params())
            if not appends:
                if names & params:
                    # the text is a parameter: the callers collected it
                    pn = sorted(names & params)[0]
                    idx = [x for x in f.params() if x != "self"].index(pn)
                    culprit = None
                    for g in ctx.tree.funcs:
                        if isinstance(g.node, ast.Lambda) or g.module is not f.module:
                            continue
                        for cc in g.own_nodes():
                            if isinstance(cc, ast.Call) and ((isinstance(cc.func, ast.Name) and cc.func.id == f.name) or (isinstance(cc.func, ast.Attribute) and cc.func.attr == f.name)) and idx < len(cc.args) and isinstance(cc.args[idx], ast.Name):
                                an = cc.args[idx].id
                                for ap in g.own_nodes():
                                    if isinstance(ap, ast.AugAssign) and isinstance(ap.target, ast.Name) and ap.target.id == an and not isinstance(ap.value, ast.Constant):
                                        lp = getattr(ap, "_parent", None)
                                        while lp is not None and lp is not g.node and not isinstance(lp, (ast.For, ast.While)):
                                            lp = getattr(lp, "_parent", None)
                                        cds = list(guards_of(ap, lp if isinstance(lp, (ast.For, ast.While)) else g.node))
                                        if isinstance(lp, ast.While):
                                            cds.append((lp.test, True))
                                        if not any(_admitting(tst, pol) for tst, pol in cds):
                                            culprit = (g, ap)
                    if culprit is not None:
                        g, ap = culprit
                        rep.bad(rid, key, f"{f.qual} hands its parameter `{pn}` to the host's {c.func.id}() without checking its characters, and {g.qual} collects that text with `{short(ap, 40)}` (line {ap.lineno}) without testing the character against constants: the host accepts a sign, blanks and underscores, so '+1' or '1_0' is taken for digits", f"{f.module.rel}:{c.lineno}")
                    else:
                        rep.ok(rid, key, {"note": "the text is a parameter: its callers admit every character"})
                else:
                    rep.ok(rid, key, {"note": "not collected character by character here"})
                    n -= 1
                continue
            bad = None
            for a in appends:
                if isinstance(a.value, ast.Constant):
                    continue
                # only tests made for THIS character count: those between the append and its nearest enclosing loop
                # (the loop's own test included); a test of some earlier character further out admits nothing
                loop = getattr(a, "_parent", None)
                while loop is not None and loop is not f.node and not isinstance(loop, (ast.For, ast.While)):
                    loop = getattr(loop, "_parent", None)
                if isinstance(loop, (ast.For, ast.While)):
                    conds = list(guards_of(a, loop))
                    if isinstance(loop, ast.While):
                        conds.append((loop.test, True))
                else:
                    conds = list(guards_of(a, f.node))
                if not any(_admitting(tst, pol) for tst, pol in conds):
                    bad = a
                    break
            if bad is None:
                rep.ok(rid, key, {"appends": len(appends)})
            else:
                rep.bad(rid, key, f"{f.qual} hands `{a0.id}` to the host's {c.func.id}() after collecting it with `{short(bad, 40)}` (line {bad.lineno}) without testing that character against constants: the host accepts a sign, blanks and underscores, so text such as '+1' or '1_0' is taken for digits (and text it rejects raises a host ValueError unless the site handles it)", f"{f.module.rel}:{bad.lineno}")
    if n < floor:
        raise AnalysisError(f"{rid}: only {n} host number conversions of collected text found")
