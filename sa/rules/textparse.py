"""E6 pitfalls of the host's text predicates and number parsers.

`str.isdigit()`, `isdecimal()` and `isnumeric()` are true for superscripts and for the digits of every script;
`int()` and `float()` accept those digits too (not the superscripts: ValueError), and also surrounding white
space, a sign and `_` separators.  ECMAScript's numeric literal, quantifier, parseFloat and array-index
grammars are ASCII-only and have one canonical spelling.  Two structural rules follow:

* a function that collects characters with a Unicode digit predicate and hands the collected text to the host
  parser accepts text outside the grammar (and lets ValueError escape for superscripts);
* a property key is an element index only in its canonical spelling: a site that turns a key into an index with
  `int()` has to compare the spelling (or use a helper that does).
"""

from __future__ import annotations

import ast
from typing import Dict, List, Optional, Set, Tuple

from ..core import AnalysisError, Func, call_name, norm, short
from ..util import atoms, guards_of

_UNICODE_DIGIT_PREDICATES = ("isdigit", "isdecimal", "isnumeric")


def _host_parse_calls(f: Func) -> List[ast.Call]:
    """int(x) / int(x, base) / float(x) calls in f whose operand is text (a name that is built as a string)."""
    texty = _text_names(f)
    out = []
    for n in f.own_nodes():
        if isinstance(n, ast.Call) and isinstance(n.func, ast.Name) and n.func.id in ("int", "float") and n.args:
            a = n.args[0]
            if len(n.args) == 2 and n.func.id == "int":
                out.append(n)  # int(text, base) always parses text
            elif isinstance(a, ast.Name) and a.id in texty:
                out.append(n)
            elif isinstance(a, ast.Subscript) and isinstance(a.slice, ast.Slice):
                out.append(n)
            elif isinstance(a, ast.JoinedStr) or (isinstance(a, ast.Call) and isinstance(a.func, ast.Attribute) and a.func.attr == "join"):
                out.append(n)
    return out


def _text_names(f: Func) -> Set[str]:
    """Locals of f that hold text: assigned a string literal, a slice, a join, or grown with `+=`."""
    out: Set[str] = set()
    for n in f.own_nodes():
        if isinstance(n, ast.Assign) and len(n.targets) == 1 and isinstance(n.targets[0], ast.Name):
            v = n.value
            if (isinstance(v, ast.Constant) and isinstance(v.value, str)) or (isinstance(v, ast.Subscript) and isinstance(v.slice, ast.Slice)) or isinstance(v, ast.JoinedStr) or (isinstance(v, ast.Call) and isinstance(v.func, ast.Attribute) and v.func.attr in ("join", "strip", "lstrip", "rstrip", "lower", "upper")):
                out.add(n.targets[0].id)
            arms = [v.body, v.orelse] if isinstance(v, ast.IfExp) else [v]
            if any(isinstance(a, ast.Call) and call_name(a) in ("to_string", "str") for a in arms):
                out.add(n.targets[0].id)
        if isinstance(n, ast.AugAssign) and isinstance(n.op, ast.Add) and isinstance(n.target, ast.Name) and (isinstance(n.value, (ast.Call, ast.Subscript, ast.Name)) or (isinstance(n.value, ast.Constant) and isinstance(n.value.value, str))):
            # only when the name also starts as a string
            if any(isinstance(m, ast.Assign) and any(isinstance(t, ast.Name) and t.id == n.target.id for t in m.targets) and ((isinstance(m.value, ast.Constant) and isinstance(m.value.value, str)) or isinstance(m.value, ast.Name)) for m in f.own_nodes()):
                out.add(n.target.id)
    for p in getattr(f.node, "args", None).args if not isinstance(f.node, ast.Lambda) else []:
        if p.annotation is not None and norm(p.annotation) == "str":
            out.add(p.arg)
    return out


def _ascii_restricted(call: ast.Call, f: Func) -> bool:
    """The predicate call `x.isdigit()` sits in a condition that also restricts x to ASCII."""
    base = norm(call.func.value)
    top = call
    while isinstance(getattr(top, "_parent", None), (ast.BoolOp, ast.UnaryOp)):
        top = top._parent
    txt = norm(top)
    if f"{base}.isascii()" in txt:
        return True
    return any(pol and f"{base}.isascii()" in norm(t) for t, pol in guards_of(call, f.node))


def rule_ascii_digit_scanners(ctx, rep, rid: str, modules: Tuple[str, ...], floor: int = 1) -> None:
    rep.rule(rid, "a function that hands collected text to the host's int()/float() does not select that text with str.isdigit()/isdecimal()/isnumeric() (true for superscripts and the digits of every script) unless the character is also restricted to ASCII: numeric literals, quantifier counts and parseFloat prefixes are made of 0-9 only", floor=floor)
    n_fn = 0
    for f in ctx.tree.funcs:
        if isinstance(f.node, ast.Lambda) or not f.module.name.startswith(modules):
            continue
        parses = _host_parse_calls(f)
        if not parses:
            continue
        n_fn += 1
        preds = [n for n in f.own_nodes() if isinstance(n, ast.Call) and isinstance(n.func, ast.Attribute) and n.func.attr in _UNICODE_DIGIT_PREDICATES and not n.args]
        bad = [p for p in preds if not _ascii_restricted(p, f)]
        key = f"{f.qual}:digits-for-host-parser"
        if bad:
            p0 = bad[0]
            rep.bad(rid, key, f"{f.qual} selects characters with {norm(p0)} ({len(bad)} such test(s)) and parses the text with {short(parses[0], 30)}: superscript digits make the host parser raise ValueError out of eval, and digits of other scripts are accepted as if they were 0-9", f"{f.module.rel}:{p0.lineno}")
        else:
            rep.ok(rid, key, {"host_parse_calls": len(parses), "digit_predicates": len(preds)})
    for m, call, text, cats in host_pattern_categories(ctx, modules=tuple(x for x in modules)):
        n_fn += 1
        key = f"{m.name}:pattern:{short(call.args[0], 30)}"
        if text is None:
            rep.ok(rid, key, {"note": "pattern text not constant: not judged"})
        elif "digit" in cats:
            rep.bad(rid, key, f"the host pattern {short(call, 50)} in {m.rel} uses \\d: in the host it matches the decimal digits of every script, so text such as '\\u0661\\u0662' passes the grammar and is converted by int()/float() as if it were 12 (ECMAScript's DecimalDigit is 0-9 only)", f"{m.rel}:{call.lineno}")
        else:
            rep.ok(rid, key, {"categories": sorted(cats)})
    if n_fn == 0:
        raise AnalysisError(f"no function that parses collected text with int()/float() found in {modules}")


def _canonical_helper(g: Func) -> bool:
    """g(key) returns int(key) only under a canonical-spelling test (ASCII digits without a leading zero, or
    str(int(key)) == key) and None / a failure value otherwise."""
    txt = " ; ".join(norm(s) for s in g.body())
    has_int = any(isinstance(n, ast.Call) and isinstance(n.func, ast.Name) and n.func.id == "int" for n in g.own_nodes())
    canon = (".isascii()" in txt and ".isdigit()" in txt and ("[0] != '0'" in txt or "startswith('0')" in txt)) or ("str(int(" in txt and "==" in txt)
    return has_int and canon


def rule_canonical_index_keys(ctx, rep, rid: str, floor: int = 4) -> None:
    rep.rule(rid, "a property key addresses an element only in its canonical spelling: wherever a key string is turned into an element index with int(), the spelling is compared (str(idx) == key) or the conversion is a helper that tests it; reads, writes and own-property tests therefore agree on what an index is", floor=floor)
    helpers = {id(g): g for g in ctx.tree.funcs if not isinstance(g.node, ast.Lambda) and g.module.name in ("values", "vm", "context") and g.parent is None and len(g.params()) == 1 and _canonical_helper(g)}
    n = 0
    for f in ctx.tree.funcs:
        if isinstance(f.node, ast.Lambda) or f.module.name not in ("vm", "context", "values") or id(f) in helpers:
            continue
        texty = None
        for c in f.own_nodes():
            if not isinstance(c, ast.Call):
                continue
            # a helper call: counted as a discharged site
            cs = ctx.cg.site_of_call.get(id(c))
            if cs is not None and cs.kind == "resolved" and cs.targets and all(id(t) in helpers for t in cs.targets):
                n += 1
                rep.ok(rid, f"{f.qual}:{short(c, 40)}", {"via": cs.targets[0].name})
                continue
            if not (isinstance(c.func, ast.Name) and c.func.id == "int" and len(c.args) == 1 and isinstance(c.args[0], ast.Name)):
                continue
            texty = texty if texty is not None else _text_names(f)
            k = c.args[0].id
            # the operand is a key: a name produced by to_string(key) / a str-annotated parameter named like a key
            if k not in texty or not any(w in k.lower() for w in ("key", "prop", "name", "index")):
                continue
            # the result indexes element storage
            p = getattr(c, "_parent", None)
            if not (isinstance(p, ast.Assign) and isinstance(p.targets[0], ast.Name)):
                continue
            idx = p.targets[0].id
            uses_elements = any(isinstance(x, ast.Call) and isinstance(x.func, ast.Attribute) and x.func.attr in ("get_index", "set_index") and any(isinstance(a, ast.Name) and a.id == idx for a in x.args) for x in f.own_nodes()) or any(isinstance(x, ast.Subscript) and isinstance(x.slice, ast.Name) and x.slice.id == idx for x in f.own_nodes()) or any(isinstance(x, ast.Compare) and isinstance(x.left, (ast.Constant, ast.Name)) and f"len(" in norm(x) and idx in norm(x) for x in f.own_nodes())
            if not uses_elements:
                continue
            n += 1
            key = f"{f.qual}:int({k})"
            txt = " ; ".join(norm(s) for s in f.own_nodes() if isinstance(s, (ast.If, ast.Compare)))
            if f"str({idx}) == {k}" in txt or f"{k} == str({idx})" in txt:
                rep.ok(rid, key, {"canonical": f"str({idx}) == {k}"})
            else:
                rep.bad(rid, key, f"{f.qual} turns the property key `{k}` into an element index with int() and never compares the spelling: \"01\", \"+1\", \" 1 \", \"1_0\" and digits of other scripts all address element 1 here, while the sites that do compare treat them as property names (a value stored under \"01\" cannot be read back)", f"{f.module.rel}:{c.lineno}")
    if not helpers and n == 0:
        raise AnalysisError("no key-to-index conversion found")


# ---- negative positions: Python counts them from the end ------------------------------------------------
_POSITION_METHODS = {"find": 1, "rfind": 1, "index": 1, "rindex": 1, "startswith": 1, "endswith": 1, "count": 1}


def _raw_integer_helpers(f: Func) -> Set[str]:
    """Names of sibling/enclosing local helper functions that return a script integer as it is
    (`return to_integer(args[i], default) if len(args) > i else default`, or the same with an early
    `return default`), i.e. possibly negative."""
    out: Set[str] = set()
    g = f.parent
    while g is not None:
        for name, h in g.children.items():
            if isinstance(h.node, ast.Lambda):
                continue
            rets = [r.value for r in h.own_nodes() if isinstance(r, ast.Return) and r.value is not None]
            arms = []
            for v in rets:
                arms += [v.body, v.orelse] if isinstance(v, ast.IfExp) else [v]
            if any(isinstance(a, ast.Call) and call_name(a) == "to_integer" for a in arms):
                out.add(name)
        g = g.parent
    return out


def _clamping_helpers(ctx) -> Set[str]:
    """Module-level helpers every result of which is provably >= 0: `return max(0, ..)`, or `return min(p, q)` on the
    path where the parameter p was found not negative and q receives a length (len(..) / .length / a local bound to
    one) at every call site."""
    cached = getattr(ctx, "_clamping_helpers", None)
    if cached is not None:
        return cached
    from ..util import atoms, known_conditions

    out: Set[str] = set()
    for f in ctx.tree.funcs:
        if f.parent is not None or f.cls is not None or isinstance(f.node, ast.Lambda) or f.module.name not in ("values", "vm", "context"):
            continue
        rets = [r for r in f.own_nodes() if isinstance(r, ast.Return) and r.value is not None]
        if not rets:
            continue
        params = f.params()

        def nonneg(e: ast.AST, at: ast.AST) -> bool:
            if isinstance(e, ast.Constant) and isinstance(e.value, int) and e.value >= 0:
                return True
            if isinstance(e, ast.Call) and norm(e.func) == "max" and any(isinstance(a, ast.Constant) and a.value == 0 for a in e.args):
                return True
            if isinstance(e, ast.Call) and norm(e.func) == "len":
                return True
            if isinstance(e, ast.Call) and norm(e.func) == "min":
                return all(nonneg(a, at) for a in e.args)
            if isinstance(e, ast.Name) and e.id in params:
                ats = [(norm(a).replace(" ", ""), p) for t, pol in known_conditions(at, f.node) for a, p in atoms(t, pol)]
                if any((a in (f"{e.id}<0", f"0>{e.id}") and not p) or (a in (f"{e.id}>=0", f"0<={e.id}") and p) for a, p in ats):
                    return True
                # a length parameter: every call site passes len(..), an attribute called length, or such a local
                idx = params.index(e.id)
                sites = [c for g in ctx.tree.funcs for c in g.own_nodes() if isinstance(c, ast.Call) and isinstance(c.func, ast.Name) and c.func.id == f.name and g is not f]
                if not sites:
                    return False
                for c in sites:
                    if idx >= len(c.args):
                        return False
                    a = c.args[idx]
                    t = norm(a)
                    if not (t.startswith("len(") or t.endswith(".length") or t == "length" or t.endswith("_len") or t == "size"):
                        return False
                return True
            return False

        if all(nonneg(r.value, r) for r in rets):
            out.add(f.name)
    ctx._clamping_helpers = out
    return out


def rule_backward_search_start(ctx, rep, rid: str) -> None:
    """A search that runs BACKWARDS from a script-supplied index (`for i in range(start, -1, -1)`) has nothing to
    search when that index, counted back from the end, is still negative.  Clamping it to 0 (the right thing for a
    forward search or a slice bound) makes the loop inspect element 0: [1,2,3].lastIndexOf(1, -4) must be -1."""
    rep.rule(rid, "the start of a backward scan over the elements (a descending range down to 0) that comes from a script integer is not clamped up to 0 on its way there (max(0, ..) or a clamping helper): a start that is still negative after counting from the end means an empty search, not a search of element 0", floor=1)
    clampers = _clamping_helpers(ctx)
    n = 0
    for f in ctx.tree.funcs:
        if isinstance(f.node, ast.Lambda) or f.module.name not in ("vm", "context"):
            continue
        ints = {}
        for a in f.own_nodes():
            if isinstance(a, ast.Assign) and len(a.targets) == 1 and isinstance(a.targets[0], ast.Name):
                arms = [a.value.body, a.value.orelse] if isinstance(a.value, ast.IfExp) else [a.value]
                if any(isinstance(x, ast.Call) and call_name(x) == "to_integer" for arm in arms for x in ast.walk(arm)):
                    ints.setdefault(a.targets[0].id, a.lineno)
        if not ints:
            continue
        for loop in f.own_nodes():
            if not (isinstance(loop, ast.For) and isinstance(loop.iter, ast.Call) and norm(loop.iter.func) == "range" and len(loop.iter.args) == 3):
                continue
            a0, a1, a2 = loop.iter.args
            if not (norm(a2).replace(" ", "") == "-1" and norm(a1).replace(" ", "") == "-1"):
                continue
            used = [x.id for x in ast.walk(a0) if isinstance(x, ast.Name) and x.id in ints]
            for v in used:
                n += 1
                key = f"{f.qual}:{v}:backward-scan"
                clamp = None
                for a in f.own_nodes():
                    if isinstance(a, ast.Assign) and len(a.targets) == 1 and isinstance(a.targets[0], ast.Name) and a.targets[0].id == v and ints[v] < a.lineno < loop.lineno:
                        t = norm(a.value).replace(" ", "")
                        if t.startswith("max(0,") or (isinstance(a.value, ast.Call) and isinstance(a.value.func, ast.Name) and a.value.func.id in clampers):
                            clamp = a
                if clamp is None:
                    rep.ok(rid, key)
                else:
                    rep.bad(rid, key, f"{f.qual} scans backwards from `{v}` (line {loop.lineno}) after clamping it up to 0 with `{short(clamp.value, 40)}` (line {clamp.lineno}): an index that is still negative after counting from the end means there is nothing to search (the result is -1), but the clamped 0 makes the scan inspect element 0 ([1,2,3].lastIndexOf(1, -4) gives 0)", f"{f.module.rel}:{clamp.lineno}")
    if n < 1:
        raise AnalysisError(f"{rid}: no backward scan from a script integer found")


def rule_negative_positions(ctx, rep, rid: str, modules: Tuple[str, ...] = ("vm", "context", "values"), floor: int = 10, only=None) -> None:
    """A script integer (the result of to_integer) that is used as a Python slice bound, as the start/end position
    of str.find/startswith/..., or as a subscript has to be made non-negative first: Python reads -1 as "one from
    the end", ECMAScript clamps positions to 0 (or has its own rule for negative arguments)."""
    rep.rule(rid, "an integer taken from a script argument is not used as a host slice bound, search position or subscript while it can still be negative (Python would count it from the end): it is clamped with max(0, ..), re-based under `if i < 0`, or range-tested first", floor=floor)
    n_uses = 0
    for f in ctx.tree.funcs:
        if isinstance(f.node, ast.Lambda) or f.module.name not in modules or (only is not None and not only(f.qual)):
            continue
        ints: Dict[str, int] = {}
        raw_helpers = _raw_integer_helpers(f)
        for n in f.own_nodes():
            if isinstance(n, ast.Assign) and len(n.targets) == 1 and isinstance(n.targets[0], ast.Name):
                arms = [n.value.body, n.value.orelse] if isinstance(n.value, ast.IfExp) else [n.value]
                if any(isinstance(a, ast.Call) and (call_name(a) == "to_integer" or (isinstance(a.func, ast.Name) and a.func.id in raw_helpers)) for a in arms):
                    ints.setdefault(n.targets[0].id, n.lineno)
        if not ints:
            continue
        # sanitising statements per local: (line, kind)
        san: Dict[str, List[int]] = {k: [] for k in ints}
        clampers = _clamping_helpers(ctx)
        for n in f.own_nodes():
            if isinstance(n, ast.Assign) and len(n.targets) == 1 and isinstance(n.targets[0], ast.Name) and n.targets[0].id in ints:
                v = norm(n.value).replace(" ", "")
                if v.startswith("max(0,") or v.startswith("min(max(") or ",0)" in v and v.startswith("max("):
                    san[n.targets[0].id].append(n.lineno)
                if isinstance(n.value, ast.Call) and isinstance(n.value.func, ast.Name) and n.value.func.id in clampers:
                    san[n.targets[0].id].append(n.lineno)
            if isinstance(n, ast.If):
                t = norm(n.test).replace(" ", "")
                for k in ints:
                    if t in (f"{k}<0", f"0>{k}") and (any(isinstance(b, ast.Assign) and any(isinstance(tg, ast.Name) and tg.id == k for tg in b.targets) for b in n.body) or (n.body and isinstance(n.body[-1], (ast.Return, ast.Raise, ast.Continue, ast.Break)))):
                        san[k].append(n.lineno)
                    # `if k < 0 or ...: raise/return`
                    if f"{k}<0" in t and n.body and isinstance(n.body[-1], (ast.Return, ast.Raise, ast.Continue, ast.Break)) and " and " not in norm(n.test):
                        san[k].append(n.lineno)

        def guarded(use: ast.AST, k: str) -> bool:
            for t, pol in guards_of(use, f.node):
                tt = norm(t).replace(" ", "")
                if pol and (f"0<={k}" in tt or f"{k}>=0" in tt or f"{k}>0" in tt or f"0<{k}" in tt):
                    return True
                if not pol and tt in (f"{k}<0", f"0>{k}"):
                    return True
            return False

        for n in f.own_nodes():
            uses: List[Tuple[ast.AST, str, str]] = []
            if isinstance(n, ast.Subscript) and isinstance(n.slice, ast.Slice):
                for part, what in ((n.slice.lower, "slice start"), (n.slice.upper, "slice end")):
                    if part is not None:
                        for x in ast.walk(part):
                            if isinstance(x, ast.Name) and x.id in ints:
                                uses.append((n, x.id, what))
            elif isinstance(n, ast.Subscript) and isinstance(n.slice, ast.Name) and n.slice.id in ints:
                uses.append((n, n.slice.id, "subscript"))
            elif isinstance(n, ast.Call) and isinstance(n.func, ast.Attribute) and n.func.attr in _POSITION_METHODS:
                for a in n.args[_POSITION_METHODS[n.func.attr]:]:
                    for x in ast.walk(a):
                        if isinstance(x, ast.Name) and x.id in ints:
                            uses.append((n, x.id, f"position argument of .{n.func.attr}()"))
            for use, k, what in uses:
                if use.lineno <= ints[k]:
                    continue
                n_uses += 1
                key = f"{f.qual}:{k}:{what}:{short(use, 30)}"
                if any(ints[k] < ln <= use.lineno for ln in san[k]) or guarded(use, k):
                    rep.ok(rid, key)
                else:
                    rep.bad(rid, key, f"{f.qual} uses the script integer `{k}` (to_integer, line {ints[k]}) as a {what} in `{short(use, 50)}` while it can be negative: Python counts a negative position from the end (\"abc\".startsWith(\"c\", -1) is then true), ECMAScript clamps it to 0", f"{f.module.rel}:{use.lineno}")
    rep.analysed["script_integer_positions"] = n_uses


# ---- sibling natives that the specification defines by the same steps ----------------------------------
SIBLING_INDEX_READERS = [("charAt", "charCodeAt")]  # both: pos = ToIntegerOrInfinity(arg); outside [0, size) -> "" / NaN


def rule_sibling_index_readers(ctx, rep, rid: str) -> None:
    """charAt and charCodeAt differ only in what they return: the index conversion and the range test are the same
    steps of the specification.  A divergence (one clamps, the other tests; one-sided against two-sided range test)
    means one of them is wrong."""
    rep.rule(rid, "sibling string natives that share their argument steps (charAt / charCodeAt) guard the element read with the same range test on the converted index", floor=1)
    by_name = {f.name: f for f in ctx.tree.funcs if f.parent is not None and f.parent.name == "_make_string_method"}
    for a, b in SIBLING_INDEX_READERS:
        fa, fb = by_name.get(a), by_name.get(b)
        if fa is None or fb is None:
            raise AnalysisError(f"string natives {a}/{b} not found")

        def shape(f: Func) -> Tuple[str, str]:
            sub = next((n for n in f.own_nodes() if isinstance(n, ast.Subscript) and isinstance(n.ctx, ast.Load) and isinstance(n.slice, ast.Name) and isinstance(n.value, ast.Name) and n.value.id == "s"), None)
            if sub is None:
                return ("?", "?")
            idx = sub.slice.id
            conv = next((norm(n.value) for n in f.own_nodes() if isinstance(n, ast.Assign) and any(isinstance(t, ast.Name) and t.id == idx for t in n.targets)), "?")
            guard = " and ".join(sorted(norm(t).replace(idx, "$i") for t, pol in guards_of(sub, f.node) if pol))
            return (conv, guard)

        sa_, sb_ = shape(fa), shape(fb)
        key = f"{a}/{b}:index-steps"
        if sa_[1] == sb_[1] and "?" not in sa_ and "?" not in sb_:
            # the same range test around the element read; a differently spelled conversion alone is not a disagreement
            rep.ok(rid, key, {"conversion": [sa_[0], sb_[0]], "guard": sa_[1]})
        else:
            rep.bad(rid, key, f"{a} converts its index with `{sa_[0]}` under `{sa_[1]}` but {b} with `{sb_[0]}` under `{sb_[1]}`: the specification gives both the same steps (ToIntegerOrInfinity, then a two-sided range test), so for some argument (a negative one, say) one of them answers for the wrong position", fb.loc)


# ---- host regular expressions applied to script text ------------------------------------------------------
def _module_text_const(mod, e: ast.AST, depth: int = 0) -> Optional[str]:
    """Text of a module-level pattern expression: literals, names bound to them, concatenations."""
    if depth > 6:
        return None
    if isinstance(e, ast.Constant) and isinstance(e.value, str):
        return e.value
    if isinstance(e, ast.Name):
        for st in mod.tree.body:
            if isinstance(st, ast.Assign) and len(st.targets) == 1 and isinstance(st.targets[0], ast.Name) and st.targets[0].id == e.id:
                return _module_text_const(mod, st.value, depth + 1)
        return None
    if isinstance(e, ast.BinOp) and isinstance(e.op, ast.Add):
        a, b = _module_text_const(mod, e.left, depth + 1), _module_text_const(mod, e.right, depth + 1)
        return None if a is None or b is None else a + b
    if isinstance(e, ast.Call) and norm(e.func) == "re.escape" and len(e.args) == 1 and not e.keywords:
        import re as _re

        a = _module_text_const(mod, e.args[0], depth + 1)
        return None if a is None else _re.escape(a)
    return None


def host_pattern_categories(ctx, modules=("vm", "context", "values", "lexer")) -> List[Tuple[object, ast.Call, str, Set[str]]]:
    """Every host regular expression the engine compiles or applies (re.compile / re.match / ...), with the
    character categories its pattern uses, read off the host's own parse of the pattern: 'digit' for \\d,
    'space' for \\s, 'word' for \\w and \\b.  Those categories are Unicode-aware in the host and differ from
    ECMAScript's classes."""
    import re as _re

    try:
        from re import _parser as _sre  # 3.11+
    except ImportError:  # pragma: no cover
        import sre_parse as _sre
    out = []
    for m in ctx.tree.modules.values() if isinstance(ctx.tree.modules, dict) else ctx.tree.modules:
        if m.name not in modules:
            continue
        for n in ast.walk(m.tree):
            if not (isinstance(n, ast.Call) and norm(n.func) in ("re.compile", "re.match", "re.fullmatch", "re.search", "re.sub", "re.split", "re.findall", "re.finditer") and n.args):
                continue
            text = _module_text_const(m, n.args[0])
            if text is None:
                out.append((m, n, None, set()))
                continue
            cats: Set[str] = set()
            ascii_flag = any("ASCII" in norm(a) or norm(a).endswith("re.A") for a in list(n.args[1:]) + [k.value for k in n.keywords])
            multiline = any("MULTILINE" in norm(a) or norm(a).endswith("re.M") for a in list(n.args[1:]) + [k.value for k in n.keywords])

            def visit(items):
                for op, av in items:
                    name = str(op)
                    if name == "IN":
                        visit(av)
                    elif name == "CATEGORY":
                        c = str(av)
                        if "DIGIT" in c:
                            cats.add("digit")
                        if "SPACE" in c:
                            cats.add("space")
                        if "WORD" in c:
                            cats.add("word")
                    elif name == "AT" and "BOUNDARY" in str(av):
                        cats.add("word")
                    elif name == "AT" and str(av) in ("AT_END", "AT_END_LINE") and not multiline:
                        cats.add("dollar")
                    elif name in ("SUBPATTERN",):
                        visit(av[3])
                    elif name in ("MAX_REPEAT", "MIN_REPEAT", "POSSESSIVE_REPEAT"):
                        visit(av[2])
                    elif name == "BRANCH":
                        for alt in av[1]:
                            visit(alt)
                    elif name in ("ASSERT", "ASSERT_NOT"):
                        visit(av[1])
                    elif name == "ATOMIC_GROUP":
                        visit(av)

            try:
                visit(_sre.parse(text))
            except Exception:
                out.append((m, n, None, set()))
                continue
            if ascii_flag:
                cats.discard("digit")
                cats.discard("word")
            out.append((m, n, text, cats))
    return out


def _control_pattern_categories() -> None:
    class _M:
        name = "values"
        tree = ast.parse("import re\nD = r'[0-9]'\nP = re.compile(r'\\s*(' + D + r'\\d+)')\n")

    class _T:
        modules = [_M]

    class _C:
        tree = _T

    got = host_pattern_categories(_C, modules=("values",))
    if len(got) != 1 or got[0][3] != {"space", "digit"}:
        raise AnalysisError(f"positive control failed: host pattern categories {got}")


# ---- the host's white space is not ECMAScript's ---------------------------------------------------------
def rule_script_whitespace(ctx, rep, rid: str, only=None, pattern_modules: Tuple[str, ...] = ("vm", "context", "values")) -> None:
    """str.strip()/lstrip()/rstrip()/split() without an argument and str.isspace() use the host's white-space set:
    it includes U+001C..U+001F and U+0085, which ECMAScript does not trim, and lacks U+FEFF, which it does."""
    rep.rule(rid, "script strings are never trimmed or split on white space with the host's default set (bare str.strip/lstrip/rstrip/split, str.isspace): ECMAScript's WhiteSpace and LineTerminator set differs from it in both directions", floor=1)
    ctl = ast.parse("def f(s):\n    return s.strip()\n")
    if not [n for n in ast.walk(ctl) if isinstance(n, ast.Call) and isinstance(n.func, ast.Attribute) and n.func.attr == "strip" and not n.args]:
        raise AnalysisError("positive control failed")
    n_sites = 0
    for f in ctx.tree.funcs:
        if isinstance(f.node, ast.Lambda) or f.module.name not in ("vm", "context", "values") or (only is not None and not only(f.qual)):
            continue
        for n in f.own_nodes():
            if isinstance(n, ast.Call) and isinstance(n.func, ast.Attribute) and n.func.attr in ("strip", "lstrip", "rstrip", "split", "isspace"):
                if n.func.attr == "split" and (n.args or n.keywords):
                    continue
                n_sites += 1
                key = f"{f.qual}:{short(n, 40)}"
                if n.func.attr != "isspace" and n.args:
                    rep.ok(rid, key, {"set": short(n.args[0], 30)})
                else:
                    rep.bad(rid, key, f"{f.qual} uses {short(n, 40)}: the host's white-space set keeps U+FEFF and removes U+001C..U+001F, unlike ECMAScript's (\"\\ufeffa\".trim() keeps the BOM)", f"{f.module.rel}:{n.lineno}")
    # host patterns applied to script text: \s is the host's white-space set as well
    _control_pattern_categories()
    for m, call, text, cats in host_pattern_categories(ctx, modules=pattern_modules):
        n_sites += 1
        key = f"{m.name}:pattern:{short(call.args[0], 30)}"
        if only is not None and not any(only(q) for q in pattern_users(ctx, m, call)):
            rep.ok(rid, key, {"note": "serves other built-ins: judged under their property"})
        elif text is None:
            rep.ok(rid, key, {"note": "pattern text not constant: not judged"})
        elif "space" in cats:
            rep.bad(rid, key, f"the host pattern {short(call, 50)} in {m.rel} uses \\s: the host's white-space class lacks U+FEFF and contains U+001C..U+001F and U+0085, unlike ECMAScript's WhiteSpace and LineTerminator (so '\\ufeff3.5' and '\\u00853.5' are read differently from what ToNumber and parseInt do)", f"{m.rel}:{call.lineno}")
        else:
            rep.ok(rid, key, {"categories": sorted(cats)})
    rep.ok(rid, "whitespace-sites", {"examined": n_sites})


def rule_includes_same_value_zero(ctx, rep, rid: str) -> None:
    """Array.prototype.includes compares with SameValueZero (NaN is found); indexOf with strict equality."""
    rep.rule(rid, "the includes natives of arrays treat NaN as equal to NaN (SameValueZero) on top of the strict comparison they share with indexOf", floor=1)
    n = 0
    for f in ctx.tree.funcs:
        if f.name not in ("includes_fn",) or f.parent is None or "array" not in f.parent.name.lower():
            continue
        n += 1
        key = f"{f.qual}:NaN"
        txt = " ; ".join(norm(s_) for s_ in f.body())
        if "is_nan(" in txt or "math.isnan(" in txt or " != " in txt and any(isinstance(c, ast.Compare) and isinstance(c.ops[0], ast.NotEq) and norm(c.left) == norm(c.comparators[0]) for c in f.own_nodes()):
            rep.ok(rid, key)
        else:
            rep.bad(rid, key, f"{f.qual} compares elements with strict equality only: NaN === NaN is false, so [NaN].includes(NaN) is false although includes is specified with SameValueZero", f.loc)
    if n == 0:
        raise AnalysisError("array includes native not found")


# ---- text handed to the host's int()/float() was admitted character by character -------------------------
def _admitting(test: ast.AST, pol: bool) -> bool:
    """Does this condition, known to hold, admit a character by looking at it: `c in "0123"`, `c == "."`,
    `_is_digit(c)`, `c.isdigit()` (restricted elsewhere)?"""
    for a, p in atoms(test, pol):
        if isinstance(a, ast.Compare) and len(a.ops) == 1 and isinstance(a.comparators[0], ast.Constant) and isinstance(a.comparators[0].value, str):
            if (isinstance(a.ops[0], (ast.In, ast.Eq)) and p) or (isinstance(a.ops[0], (ast.NotIn, ast.NotEq)) and not p):
                return True
        if isinstance(a, ast.Call) and p and (norm(a.func).split(".")[-1] in ("_is_digit", "isdigit", "_is_hex_digit", "_is_identifier_part", "_is_identifier_start")):
            return True
    return False


def rule_host_parser_text_admitted(ctx, rep, rid: str, modules: Tuple[str, ...] = ("lexer", "parser", "regex.parser"), floor: int = 4) -> None:
    """int(text, base) and float(text) accept more than any ECMAScript literal: a sign, surrounding blanks,
    underscores between digits, digits of other scripts.  Source text handed to them has to be admitted character by
    character first: every character appended to the collected text sits under a test of that character against
    constants, or the text is checked by a loop that rejects anything outside a constant set."""
    rep.rule(rid, "in the front end, text handed to the host's int()/float() was admitted character by character: every `text += <next character>` sits under a test of that character against constants (membership, equality, the ASCII digit predicate), or a loop over the text rejects everything outside a constant set before the conversion: the host's number grammar (sign, blanks, underscores) never decides what a literal or an escape is", floor=floor)
    n = 0
    for f in ctx.tree.funcs:
        if isinstance(f.node, ast.Lambda) or not f.module.name.startswith(modules):
            continue
        for c in f.own_nodes():
            if not (isinstance(c, ast.Call) and isinstance(c.func, ast.Name) and c.func.id in ("int", "float") and c.args):
                continue
            a0 = c.args[0]
            if isinstance(a0, ast.BoolOp):
                a0 = a0.values[0]
            if not isinstance(a0, ast.Name):
                continue
            t = a0.id
            # follow `t = u.lstrip(..)` / `t = u` / `t = u or "0"` to the collected text
            seen = set()
            while t not in seen:
                seen.add(t)
                src = [a.value for a in f.own_nodes() if isinstance(a, ast.Assign) and any(isinstance(x, ast.Name) and x.id == t for x in a.targets)]
                nxt = None
                for v in src:
                    if isinstance(v, ast.BoolOp):
                        v = v.values[0]
                    if isinstance(v, ast.Call) and isinstance(v.func, ast.Attribute) and v.func.attr in ("lstrip", "rstrip", "strip", "lower", "upper") and isinstance(v.func.value, ast.Name):
                        nxt = v.func.value.id
                    elif isinstance(v, ast.Name):
                        nxt = v.id
                if nxt is None:
                    break
                t = nxt
            names = seen | {t}
            n += 1
            key = f"{f.qual}:{short(c, 30)}"
            # (b) a validating loop over the text
            validated = False
            for loop in f.own_nodes():
                if isinstance(loop, ast.For) and isinstance(loop.iter, ast.Name) and loop.iter.id in names and isinstance(loop.target, ast.Name) and loop.lineno < c.lineno:
                    lv = loop.target.id
                    for i in loop.body:
                        if isinstance(i, ast.If) and isinstance(i.test, ast.Compare) and len(i.test.ops) == 1 and isinstance(i.test.ops[0], ast.NotIn) and norm(i.test.left) == lv and isinstance(i.test.comparators[0], ast.Constant) and i.body and isinstance(i.body[-1], (ast.Return, ast.Raise)):
                            validated = True
            if validated:
                rep.ok(rid, key, {"admitted_by": "a loop that rejects every character outside a constant set"})
                continue
            # (a) every append of a character is under an admitting test
            appends = [a for a in f.own_nodes() if isinstance(a, ast.AugAssign) and isinstance(a.target, ast.Name) and a.target.id in names and isinstance(a.op, ast.Add)]
            params = set(f.params())
            if not appends:
                if names & params:
                    # the text is a parameter: the callers collected it
                    pn = sorted(names & params)[0]
                    idx = [x for x in f.params() if x != "self"].index(pn)
                    culprit = None
                    for g in ctx.tree.funcs:
                        if isinstance(g.node, ast.Lambda) or g.module is not f.module:
                            continue
                        for cc in g.own_nodes():
                            if isinstance(cc, ast.Call) and ((isinstance(cc.func, ast.Name) and cc.func.id == f.name) or (isinstance(cc.func, ast.Attribute) and cc.func.attr == f.name)) and idx < len(cc.args) and isinstance(cc.args[idx], ast.Name):
                                an = cc.args[idx].id
                                for ap in g.own_nodes():
                                    if isinstance(ap, ast.AugAssign) and isinstance(ap.target, ast.Name) and ap.target.id == an and not isinstance(ap.value, ast.Constant):
                                        lp = getattr(ap, "_parent", None)
                                        while lp is not None and lp is not g.node and not isinstance(lp, (ast.For, ast.While)):
                                            lp = getattr(lp, "_parent", None)
                                        cds = list(guards_of(ap, lp if isinstance(lp, (ast.For, ast.While)) else g.node))
                                        if isinstance(lp, ast.While):
                                            cds.append((lp.test, True))
                                        if not any(_admitting(tst, pol) for tst, pol in cds):
                                            culprit = (g, ap)
                    if culprit is not None:
                        g, ap = culprit
                        rep.bad(rid, key, f"{f.qual} hands its parameter `{pn}` to the host's {c.func.id}() without checking its characters, and {g.qual} collects that text with `{short(ap, 40)}` (line {ap.lineno}) without testing the character against constants: the host accepts a sign, blanks and underscores, so '+1' or '1_0' is taken for digits", f"{f.module.rel}:{c.lineno}")
                    else:
                        rep.ok(rid, key, {"note": "the text is a parameter: its callers admit every character"})
                else:
                    rep.ok(rid, key, {"note": "not collected character by character here"})
                    n -= 1
                continue
            bad = None
            for a in appends:
                if isinstance(a.value, ast.Constant):
                    continue
                # only tests made for THIS character count: those between the append and its nearest enclosing loop
                # (the loop's own test included); a test of some earlier character further out admits nothing
                loop = getattr(a, "_parent", None)
                while loop is not None and loop is not f.node and not isinstance(loop, (ast.For, ast.While)):
                    loop = getattr(loop, "_parent", None)
                if isinstance(loop, (ast.For, ast.While)):
                    conds = list(guards_of(a, loop))
                    if isinstance(loop, ast.While):
                        conds.append((loop.test, True))
                else:
                    conds = list(guards_of(a, f.node))
                if not any(_admitting(tst, pol) for tst, pol in conds):
                    bad = a
                    break
            if bad is None:
                rep.ok(rid, key, {"appends": len(appends)})
            else:
                rep.bad(rid, key, f"{f.qual} hands `{a0.id}` to the host's {c.func.id}() after collecting it with `{short(bad, 40)}` (line {bad.lineno}) without testing that character against constants: the host accepts a sign, blanks and underscores, so text such as '+1' or '1_0' is taken for digits (and text it rejects raises a host ValueError unless the site handles it)", f"{f.module.rel}:{bad.lineno}")
    if n < floor:
        raise AnalysisError(f"{rid}: only {n} host number conversions of collected text found")


# ---- decimal text of script-controlled length is not handed to int() -------------------------------------
_INT_TEXT_LIMIT = 4300  # CPython's default sys.int_max_str_digits: int() of longer decimal text raises ValueError


def _small_const(e: ast.AST) -> Optional[int]:
    if isinstance(e, ast.Constant) and isinstance(e.value, int) and not isinstance(e.value, bool):
        return e.value
    return None


def _length_bounded(site: ast.Call, operand: ast.AST, f: Func) -> Optional[str]:
    """Why the text operand of int() cannot be longer than the host accepts: a constant-width slice, or a test of
    len(<the text>) against a constant that holds on the way to the site."""
    from ..util import known_conditions

    if isinstance(operand, ast.Subscript) and isinstance(operand.slice, ast.Slice):
        lo, hi = operand.slice.lower, operand.slice.upper
        if hi is not None and _small_const(hi) is not None and (lo is None or _small_const(lo) is not None):
            return f"constant slice {short(operand, 30)}"
        # x[i : i + K]
        if lo is not None and isinstance(hi, ast.BinOp) and isinstance(hi.op, ast.Add) and norm(hi.left) == norm(lo) and _small_const(hi.right) is not None:
            return f"slice of {_small_const(hi.right)} characters"
    names = {x.id for x in ast.walk(operand) if isinstance(x, ast.Name)}
    for tst, pol in known_conditions(site, f.node):
        for a, p in atoms(tst, pol):
            if not (isinstance(a, ast.Compare) and len(a.ops) == 1):
                continue
            l, r, op = a.left, a.comparators[0], a.ops[0]
            if isinstance(r, ast.Call) and norm(r.func) == "len":  # K >= len(x)
                l, r = r, l
                op = {ast.Gt: ast.Lt, ast.GtE: ast.LtE, ast.Lt: ast.Gt, ast.LtE: ast.GtE}.get(type(op), type(op))()
            if not (isinstance(l, ast.Call) and norm(l.func) == "len" and l.args and isinstance(l.args[0], ast.Name) and l.args[0].id in names):
                continue
            k = _small_const(r)
            if k is None or k > _INT_TEXT_LIMIT:
                continue
            if (p and isinstance(op, (ast.Lt, ast.LtE, ast.Eq))) or (not p and isinstance(op, (ast.Gt, ast.GtE))):
                return f"len({l.args[0].id}) bounded by {k}"
    return None


def _catches_value_error(tr: ast.Try) -> bool:
    for h in tr.handlers:
        if h.type is None:
            return True
        hs = [norm(x).split(".")[-1] for x in (h.type.elts if isinstance(h.type, ast.Tuple) else [h.type])]
        if any(x in ("ValueError", "Exception", "BaseException") for x in hs):
            return True
    return False


def _locally_covered(node: ast.AST, f: Func) -> bool:
    from ..util import try_handlers_enclosing

    scope = f
    while scope is not None:
        for tr, in_body in try_handlers_enclosing(node, scope.node):
            if in_body and _catches_value_error(tr):
                return True
        node, scope = scope.node, scope.parent
    return False


def _value_error_covered(ctx, node: ast.AST, f: Func, seen: Set[int], depth: int = 0) -> bool:
    """A ValueError raised at node does not leave the library: a try around it catches it, here or in every caller
    (greatest fixpoint over the call graph: a cycle adds no new way in; an entry point without callers is uncovered)."""
    if _locally_covered(node, f):
        return True
    memo = ctx.__dict__.setdefault("_verr_uncovered", None)
    if memo is None:
        sr = ctx.facts.script_reachable()

        def live(g: Func) -> bool:
            """Runs during an evaluation: reachable from script code, or an entry point of the embedding API."""
            return id(g) in sr or (g.cls is not None and g.cls.name == "Context" and not g.name.startswith("_") and g.parent is None)

        callers: Dict[int, List] = {}
        for cs in ctx.cg.sites:
            if not live(cs.func):
                continue
            for t in cs.targets:
                callers.setdefault(id(t), []).append(cs)
        # uncovered(g): g is live and has no live caller (an entry point, or called by the interpreter through a table),
        # or some call of g is not locally covered and its caller is uncovered
        uncovered: Set[int] = set()
        for g in ctx.tree.funcs:
            if live(g) and not callers.get(id(g)):
                uncovered.add(id(g))
        changed = True
        while changed:
            changed = False
            for gid, css in callers.items():
                if gid in uncovered:
                    continue
                if any(id(cs.func) in uncovered and not _locally_covered(cs.call, cs.func) for cs in css):
                    uncovered.add(gid)
                    changed = True
        memo = ctx.__dict__["_verr_uncovered"] = uncovered
    return id(f) not in memo


def rule_decimal_text_length_bounded(ctx, rep, rid: str, floor: int = 3) -> None:
    """CPython refuses to convert decimal text of more than 4300 digits with int() (ValueError, since 3.11; bases that
    are powers of two are exempt).  Source text, script strings and JSON text are as long as the script likes, so a
    digit run handed to int() needs a length bound, a handler, or a conversion that has no limit (float())."""
    rep.rule(rid, "decimal text whose length the script controls (numeric literals, digit strings converted by ToNumber, index-like property keys, counts and group numbers in patterns, integer tokens given to a host parser hook) is handed to the host's int() only under a bound on its length or inside a handler for ValueError that every path to the site passes: int() of more than 4300 decimal digits raises ValueError", floor=floor)
    n = 0
    for f in ctx.tree.funcs:
        if isinstance(f.node, ast.Lambda):
            continue
        texty = _text_names(f)
        # a parameter that the function treats as text (x.isdigit(), PATTERN.match(x)) is text
        params = set(f.params())
        for c in f.own_nodes():
            if isinstance(c, ast.Call) and isinstance(c.func, ast.Attribute):
                if c.func.attr in ("isdigit", "isascii", "startswith", "isdecimal") and isinstance(c.func.value, ast.Name) and c.func.value.id in params:
                    texty.add(c.func.value.id)
                if c.func.attr in ("match", "fullmatch") and c.args and isinstance(c.args[0], ast.Name) and c.args[0].id in params:
                    texty.add(c.args[0].id)
        for c in f.own_nodes():
            if not (isinstance(c, ast.Call) and isinstance(c.func, ast.Name) and c.func.id == "int" and c.args and not c.keywords):
                continue
            if len(c.args) == 2:
                b = _small_const(c.args[1])
                if b != 10:
                    continue  # a power-of-two base has no limit; a computed base is judged by the radix rules
            a = c.args[0]
            is_text = (isinstance(a, ast.Name) and a.id in texty) or (isinstance(a, ast.Subscript) and isinstance(a.slice, ast.Slice) and isinstance(a.value, ast.Name) and a.value.id in texty) or (isinstance(a, ast.Call) and isinstance(a.func, ast.Attribute) and a.func.attr in ("group", "join", "strip", "lstrip", "rstrip"))
            if not is_text:
                continue
            n += 1
            key = f"{f.qual}:{short(c, 30)}"
            why = _length_bounded(c, a, f)
            if why is not None:
                rep.ok(rid, key, {"bounded": why})
            elif _value_error_covered(ctx, c, f, set()):
                rep.ok(rid, key, {"handled": "a handler for ValueError encloses every path to the site"})
            else:
                rep.bad(rid, key, f"{f.qual} converts the text `{short(a, 30)}` with {short(c, 30)}: the text is as long as the script makes it, and the host's int() raises ValueError for more than {_INT_TEXT_LIMIT} decimal digits (a numeric literal, digit string or key of 5000 digits), which leaves eval as a host exception; read it with float(), bound its length, or handle the error", f"{f.module.rel}:{c.lineno}")
    # the host JSON parser converts integer tokens with int() itself unless it is given a hook
    for f in ctx.tree.funcs:
        if isinstance(f.node, ast.Lambda):
            continue
        for c in f.own_nodes():
            if isinstance(c, ast.Call) and norm(c.func) == "json.loads":
                n += 1
                key = f"{f.qual}:json.loads:integer-tokens"
                hook = [kw for kw in c.keywords if kw.arg == "parse_int"]
                if hook or _value_error_covered(ctx, c, f, set()):
                    rep.ok(rid, key, {"hook": norm(hook[0].value) if hook else None})
                else:
                    rep.bad(rid, key, f"{f.qual} lets json.loads convert integer tokens with the host's int(): a token of more than {_INT_TEXT_LIMIT} digits raises ValueError out of eval", f"{f.module.rel}:{c.lineno}")
    rep.analysed["int_text_sites"] = n
    if n < floor:
        raise AnalysisError(f"{rid}: only {n} int(text) sites recognised (floor {floor})")


# ---- a raw script number used as a host subscript is range-tested on both sides ---------------------------
def _int_narrowed(test: ast.AST, pol: bool) -> Set[str]:
    """Names that the condition (known to be `pol`) narrows to a host int: type(k) is int, isinstance(k, int)."""
    out: Set[str] = set()
    for a, p in atoms(test, pol):
        if not p:
            continue
        if isinstance(a, ast.Compare) and len(a.ops) == 1 and isinstance(a.ops[0], (ast.Is, ast.Eq)) and isinstance(a.left, ast.Call) and norm(a.left.func) == "type" and a.left.args and isinstance(a.left.args[0], ast.Name) and norm(a.comparators[0]) == "int":
            out.add(a.left.args[0].id)
        if isinstance(a, ast.Call) and norm(a.func) == "isinstance" and len(a.args) == 2 and isinstance(a.args[0], ast.Name):
            ks = [norm(x) for x in (a.args[1].elts if isinstance(a.args[1], ast.Tuple) else [a.args[1]])]
            if "int" in ks and all(k in ("int", "bool") for k in ks):
                out.add(a.args[0].id)
    return out


def _subscript_bounds(f_node: ast.AST, use: ast.AST, k: str, base: str) -> Tuple[bool, bool]:
    """(lower bound known, upper bound known) for the index name k of base[k] from the conditions that hold at use."""
    from ..util import known_conditions

    lo = hi = False
    for t, pol in known_conditions(use, f_node):
        for a, p in atoms(t, pol):
            if not isinstance(a, ast.Compare):
                continue
            terms = [a.left] + list(a.comparators)
            for i, op in enumerate(a.ops):
                l, r = norm(terms[i]).replace(" ", ""), norm(terms[i + 1]).replace(" ", "")
                if len(a.ops) > 1 and not p:
                    continue  # a false chain says nothing about either side
                # lower bound
                if (p and ((l == "0" and r == k and isinstance(op, (ast.LtE, ast.Lt))) or (l == k and r in ("0", "-1") and isinstance(op, (ast.GtE, ast.Gt)) and not (r == "0" and False)))) or (not p and l == k and r == "0" and isinstance(op, ast.Lt)):
                    lo = True
                # upper bound
                if (p and l == k and r == f"len({base})" and isinstance(op, ast.Lt)) or (not p and l == k and r == f"len({base})" and isinstance(op, ast.GtE)) or (p and l == f"len({base})" and r == k and isinstance(op, ast.Gt)):
                    hi = True
    return lo, hi


def rule_raw_number_subscripts(ctx, rep, rid: str, modules: Tuple[str, ...] = ("vm", "values", "context"), booleans: bool = False) -> None:
    """A fast path that takes a script value, finds it to be a host int (type(key) is int) and uses it as the
    subscript of a host string or list skips the decimal-key parser, which only ever yields canonical non-negative
    indices: the raw int can be negative (Python then counts from the end, and raises IndexError below -len) and
    needs both sides of the range test."""
    rep.rule(rid, "where a parameter that a type test has just narrowed to a host int is used as the subscript of a host string or element list, both `0 <= i` and `i < len(..)` hold on the way to the subscript: a raw script number can be negative, which the host reads as an offset from the end (a wrong element) or refuses with IndexError below -len", floor=0)
    # positive control
    ctl = ast.parse("def get(obj, key):\n    if type(key) is int:\n        if isinstance(obj, str) and key < len(obj):\n            return obj[key]\n")
    for n_ in ast.walk(ctl):
        for ch in ast.iter_child_nodes(n_):
            ch._parent = n_
    sub = next(x for x in ast.walk(ctl) if isinstance(x, ast.Subscript))
    from ..util import known_conditions

    narrowed = set()
    for t, pol in known_conditions(sub, ctl.body[0]):
        narrowed |= _int_narrowed(t, pol)
    if narrowed != {"key"} or _subscript_bounds(ctl.body[0], sub, "key", "obj") != (False, True):
        raise AnalysisError(f"{rid}: positive control failed")
    examined = judged = 0
    for f in ctx.tree.funcs:
        if isinstance(f.node, ast.Lambda) or f.module.name not in modules:
            continue
        params = set(f.params()) - {"self"}
        if not params:
            continue
        for n in f.own_nodes():
            if not (isinstance(n, ast.Subscript) and isinstance(n.ctx, ast.Load) and not isinstance(n.slice, ast.Slice)):
                continue
            examined += 1
            if not (isinstance(n.slice, ast.Name) and n.slice.id in params):
                continue
            k = n.slice.id
            conds = known_conditions(n, f.node)
            nar: Set[str] = set()
            for t, pol in conds:
                nar |= _int_narrowed(t, pol)
            if k not in nar:
                continue
            base = norm(n.value)
            is_seq = base.endswith("._elements") or base.endswith("._data") or any(pol and any(isinstance(a, ast.Call) and norm(a.func) == "isinstance" and len(a.args) == 2 and norm(a.args[0]) == base and norm(a.args[1]) in ("str", "list", "tuple", "bytes", "bytearray") and p for a, p in atoms(t, pol)) for t, pol in conds)
            if not is_seq:
                continue
            judged += 1
            key = f"{f.qual}:{base}[{k}]"
            lo, hi = _subscript_bounds(f.node, n, k, base)
            # isinstance(k, int) also holds for the host's booleans: true and false are not indices
            exact = False
            for t, pol in conds:
                for a, p in atoms(t, pol):
                    if p and isinstance(a, ast.Compare) and isinstance(a.left, ast.Call) and norm(a.left.func) == "type" and a.left.args and norm(a.left.args[0]) == k:
                        exact = True
                    if isinstance(a, ast.Call) and norm(a.func) == "isinstance" and len(a.args) == 2 and norm(a.args[0]) == k and norm(a.args[1]) == "bool" and not p:
                        exact = True
            if not exact and booleans:
                rep.bad(rid, key, f"{f.qual} reads {base}[{k}] after finding `{k}` to be an int with isinstance, which the host's booleans pass as well (bool is a subclass of int): \"abc\"[true] is then \"b\" where the property named 'true' is undefined", f"{f.module.rel}:{n.lineno}")
            elif lo and hi:
                rep.ok(rid, key)
            else:
                miss = " and ".join(w for w, have in ((f"0 <= {k}", lo), (f"{k} < len({base})", hi)) if not have)
                rep.bad(rid, key, f"{f.qual} reads {base}[{k}] where `{k}` is the raw script value that a type test has just found to be a host int, without `{miss}` on the way: a negative number is read as an offset from the end (\"abc\"[-1] gives \"c\" instead of undefined) and one below -len raises the host's IndexError out of eval", f"{f.module.rel}:{n.lineno}")
    rep.ok(rid, "raw-number-subscripts", {"subscripts_examined": examined, "with_a_raw_narrowed_index": judged})
    if examined < 50:
        raise AnalysisError(f"{rid}: only {examined} subscripts examined")


# ---- the one position argument for which "not a number" does not mean 0 -----------------------------------
# String.prototype.lastIndexOf: numPos = ToNumber(position); if numPos is NaN, pos = +Infinity (ECMA-262 22.1.3.10).
# Every other position argument goes through ToIntegerOrInfinity, for which NaN is 0.
NAN_MEANS_END = {"lastIndexOf": "String.prototype.lastIndexOf step 4-5: a position that converts to NaN is +Infinity"}


def _is_nan_test(e: ast.AST) -> bool:
    for x in ast.walk(e):
        if isinstance(x, ast.Compare) and len(x.ops) == 1 and isinstance(x.ops[0], ast.NotEq) and norm(x.left) == norm(x.comparators[0]):
            return True
        if isinstance(x, ast.Call) and norm(x.func).split(".")[-1] in ("isnan", "is_nan"):
            return True
    return False


def _nan_yields(g: Func, bind: Dict[str, str]) -> List[str]:
    """Expressions (parameters replaced by what the caller passed) that g's position takes under a NaN test."""
    out: List[str] = []

    def res(e: ast.AST) -> str:
        t = norm(e)
        return bind.get(t, t)

    for n in g.own_nodes():
        if isinstance(n, ast.If) and _is_nan_test(n.test):
            for st in n.body:
                if isinstance(st, ast.Assign):
                    out.append(res(st.value))
                if isinstance(st, ast.Return) and st.value is not None:
                    out.append(res(st.value))
        if isinstance(n, ast.IfExp) and _is_nan_test(n.test):
            out.append(res(n.body))
    return out


def rule_nan_position_means_end(ctx, rep, rid: str) -> None:
    rep.rule(rid, "String.prototype.lastIndexOf gives a position that converts to NaN the value it uses for a missing position (the end of the string): the native, or the helper it hands its arguments to, has a NaN test on the converted position whose outcome is that default; ToIntegerOrInfinity alone makes NaN 0", floor=1)
    n = 0
    for f in ctx.tree.funcs:
        if isinstance(f.node, ast.Lambda) or f.name not in NAN_MEANS_END or f.parent is None or f.parent.name != "_make_string_method":
            continue
        n += 1
        key = f"{f.qual}:position:NaN"
        # the default for a missing position: `X if len(args) > 1 else D`, or the default handed to a helper h(args, 1, D)
        defaults: List[str] = []
        helpers: List[Tuple[Func, Dict[str, str]]] = []
        for x in f.own_nodes():
            if isinstance(x, ast.IfExp) and "len(args)" in norm(x.test) and any(isinstance(s_, ast.Subscript) and norm(s_.value) == "args" for s_ in ast.walk(x.body)):
                defaults.append(norm(x.orelse))
            if isinstance(x, ast.Call) and isinstance(x.func, ast.Name) and any(isinstance(a, ast.Name) and a.id == "args" for a in x.args):
                g = None
                h = f
                while h is not None and g is None:
                    g = h.children.get(x.func.id)
                    h = h.parent
                if g is not None and not isinstance(g.node, ast.Lambda):
                    ps = [p for p in g.params() if p != "self"]
                    bind = {ps[i]: norm(a) for i, a in enumerate(x.args) if i < len(ps)}
                    helpers.append((g, bind))
                    # the helper's default parameter, as passed here
                    for p_, v in bind.items():
                        if "default" in p_ or p_ in ("missing", "fallback"):
                            defaults.append(v)
        if not defaults:
            raise AnalysisError(f"{rid}: the default of the missing position in {f.qual} was not recognised")
        yields = _nan_yields(f, {})
        for g, bind in helpers:
            yields += _nan_yields(g, bind)
        if any(y in defaults for y in yields):
            rep.ok(rid, key, {"missing_position": defaults, "nan_position": yields})
        else:
            where = f.qual + ("" if not helpers else " / " + ", ".join(g.name for g, _ in helpers))
            rep.bad(rid, key, f"{where}: the position of lastIndexOf is converted like every other position, so one that is not a number (NaN, 'x', an object) becomes 0 and the search runs backwards from the start; {NAN_MEANS_END[f.name]} - 'abcabc'.lastIndexOf('c', NaN) is 5, not -1 (missing position: {defaults[0]}; under a NaN test: {yields or 'nothing'})", f.loc)
    if n == 0:
        raise AnalysisError(f"{rid}: String lastIndexOf native not found")


# ---- `$` in a host pattern is not the end of the text ----------------------------------------------------------
def rule_host_pattern_end_anchor(ctx, rep, rid: str, modules: Tuple[str, ...] = ("vm", "context", "values", "lexer"), only=None) -> None:
    """Without re.MULTILINE the host's `$` matches at the end of the text AND just before a line feed that ends it, so a
    pattern used to decide "the whole text is of this form" accepts one trailing line feed that it never looked at.
    `\\Z` is the end of the text."""
    rep.rule(rid, "a host pattern that the engine applies to script text anchors its end with \\Z, not with `$`: the host's `$` also matches before a trailing line feed, so 'x\\n' passes a pattern that was meant to admit only 'x' (a whole-text grammar, a nothing-to-escape fast path)", floor=1)
    _control_pattern_categories()
    ctl = ast.parse("import re\nP = re.compile('[a-z]*$')\n")

    class _M:
        name = "values"
        tree = ctl

    got = host_pattern_categories(type("C", (), {"tree": type("T", (), {"modules": [_M]})}), modules=("values",))
    if len(got) != 1 or "dollar" not in got[0][3]:
        raise AnalysisError(f"{rid}: positive control failed")
    n = 0
    for m, call, text, cats in host_pattern_categories(ctx, modules=modules):
        n += 1
        key = f"{m.name}:pattern:{short(call.args[0], 30)}:end-anchor"
        if only is not None and not any(only(q) for q in pattern_users(ctx, m, call)):
            rep.ok(rid, key, {"note": "serves other built-ins: judged under their property"})
            continue
        if text is None:
            rep.ok(rid, key, {"note": "pattern text not constant: not judged"})
        elif "dollar" in cats:
            rep.bad(rid, key, f"the host pattern {short(call, 50)} in {m.rel} ends with `$`: in the host that also matches just before a final line feed, so text with one trailing '\\n' is accepted although the pattern never admitted that character (the module's other patterns use \\Z)", f"{m.rel}:{call.lineno}")
        else:
            rep.ok(rid, key)
    if n == 0:
        raise AnalysisError(f"{rid}: no host pattern found in {modules}")


def pattern_users(ctx, m, call: ast.Call, depth: int = 3) -> Set[str]:
    """Qualified names of the functions that use the compiled pattern `NAME = re.compile(..)` (by name), and of the
    functions that call those, up to `depth` levels: which built-ins a module-level pattern serves."""
    par = getattr(call, "_parent", None)
    name = par.targets[0].id if isinstance(par, ast.Assign) and len(par.targets) == 1 and isinstance(par.targets[0], ast.Name) else None
    out: Set[str] = set()
    if name is None:
        from ..core import enclosing_func

        f = enclosing_func(call)
        return {f.qual} if f is not None else set()
    frontier = [f for f in ctx.tree.funcs if not isinstance(f.node, ast.Lambda) and any(isinstance(x, ast.Name) and x.id == name and isinstance(x.ctx, ast.Load) for x in f.own_nodes()) and (f.module is m or name in f.module.imports)]
    seen = set()
    for _ in range(depth + 1):
        nxt = []
        for f in frontier:
            if id(f) in seen:
                continue
            seen.add(id(f))
            out.add(f.qual)
            for cs in ctx.cg.sites:
                if any(t is f for t in cs.targets):
                    nxt.append(cs.func)
        frontier = nxt
    return out


# ---- the escapes JSON.stringify writes ------------------------------------------------------------------------


_JSON_SHORT = {0x08: "\\b", 0x09: "\\t", 0x0A: "\\n", 0x0C: "\\f", 0x0D: "\\r", 0x22: '\\"', 0x5C: "\\\\"}


def rule_json_escape_table(ctx, rep, rid: str) -> None:
    """QuoteJSONString: \\b \\t \\n \\f \\r \\" \\\\ have two-character escapes, the other C0 controls are written as \\u00xx
    (lower-case hex), everything else as it is.  The host's json.dumps does that; an escape table of the repository's
    own is folded here (its module-level construction consists of literals, comprehensions and pure host functions)
    and compared entry by entry - a later `update` over all of range(0x20) overwrites the five short escapes."""
    rep.rule(rid, "the quoting of JSON strings goes through the host's json.dumps, or through a translation table whose folded content maps \\b \\t \\n \\f \\r \" \\\\ to their two-character escapes and the remaining controls below 0x20 to \\u00xx", floor=1)
    from .isolation import _PURE_HOST, _constant_expression

    n = 0
    for f in ctx.tree.funcs:
        if isinstance(f.node, ast.Lambda) or f.module.name not in ("context", "vm", "values"):
            continue
        for c in f.own_nodes():
            if not (isinstance(c, ast.Call) and isinstance(c.func, ast.Attribute) and c.func.attr == "translate" and c.args and isinstance(c.args[0], ast.Name)):
                continue
            name = c.args[0].id
            if "json" not in f.qual.lower() and "json" not in name.lower() and "quote" not in f.qual.lower():
                continue
            stmts = []
            for s_ in f.module.tree.body:
                if isinstance(s_, ast.Assign) and len(s_.targets) == 1 and norm(s_.targets[0]) == name:
                    stmts.append(s_)
                elif isinstance(s_, ast.Expr) and isinstance(s_.value, ast.Call) and isinstance(s_.value.func, ast.Attribute) and norm(s_.value.func.value) == name:
                    stmts.append(s_)
            if not stmts:
                continue
            n += 1
            key = f"{f.qual}:{name}:json-escapes"
            foldable = all(_constant_expression(s_.value if isinstance(s_, ast.Assign) else ast.Tuple(elts=list(s_.value.args), ctx=ast.Load())) for s_ in stmts)
            if not foldable:
                rep.ok(rid, key, {"note": "table not built from constants alone: not folded"})
                continue
            import builtins as _b

            ns = {"__builtins__": {k: getattr(_b, k) for k in _PURE_HOST if hasattr(_b, k)}}
            try:
                exec(compile(ast.Module(body=[ast.fix_missing_locations(s_) for s_ in stmts], type_ignores=[]), "<folded table>", "exec"), ns)
            except Exception as e:  # the initialiser itself is broken: not this rule's business
                rep.ok(rid, key, {"note": f"folding failed: {type(e).__name__}"})
                continue
            table = ns.get(name)
            if not isinstance(table, dict):
                rep.ok(rid, key, {"note": "not a mapping"})
                continue
            wrong = []
            for cp in range(0x20):
                want = _JSON_SHORT.get(cp, "\\u%04x" % cp)
                got = table.get(cp, table.get(chr(cp)))
                if got != want:
                    wrong.append((cp, got, want))
            for cp in (0x22, 0x5C):
                got = table.get(cp, table.get(chr(cp)))
                if got != _JSON_SHORT[cp]:
                    wrong.append((cp, got, _JSON_SHORT[cp]))
            if wrong:
                cp, got, want = wrong[0]
                rep.bad(rid, key, f"the escape table `{name}` used by {f.qual}, folded from its {len(stmts)} module-level statement(s), writes U+{cp:04X} as {got!r} where QuoteJSONString prescribes {want!r} ({len(wrong)} entr{'y' if len(wrong) == 1 else 'ies'} differ: {', '.join('U+%04X' % w[0] for w in wrong[:6])}): JSON.stringify(\"a\\nb\") is not the text \"a\\nb\"", f"{f.module.rel}:{stmts[-1].lineno}")
            else:
                rep.ok(rid, key, {"entries": len(table)})
    if n == 0:
        uses_dumps = any(isinstance(c, ast.Call) and norm(c.func) == "json.dumps" for f in ctx.tree.funcs if not isinstance(f.node, ast.Lambda) and f.module.name == "context" for c in f.own_nodes())
        if uses_dumps:
            rep.ok(rid, "json.dumps", {"note": "strings are quoted by the host library"})
        else:
            rep.ok(rid, "own-routine", {"note": "strings are quoted by a routine of the repository without a folded table: its escapes are judged by the other rules of this property"})


def rule_case_mapped_lookup_is_ascii(ctx, rep, rid: str, modules=("context", "values", "vm")) -> None:
    """`table.find(ch.lower())` finds the ASCII letter k for U+212A KELVIN SIGN (and s for U+017F): the host's case
    mapping brings characters from outside ASCII into it.  A digit or letter looked up after a case mapping is only an
    ASCII digit or letter when the character was ASCII before the mapping."""
    rep.rule(rid, "a character that is case-mapped (lower/upper/casefold) and then looked up in a table of ASCII digits and letters (find/index/in) is known to be ASCII before the mapping (an isascii() test on the path)", floor=1)
    from ..util import atoms, known_conditions

    n = 0
    for f in ctx.tree.funcs:
        if isinstance(f.node, ast.Lambda) or f.module.name not in modules:
            continue
        for c in f.own_nodes():
            mapped = None
            if isinstance(c, ast.Call) and isinstance(c.func, ast.Attribute) and c.func.attr in ("find", "index", "rfind") and c.args:
                mapped = c.args[0]
            elif isinstance(c, ast.Compare) and len(c.ops) == 1 and isinstance(c.ops[0], (ast.In, ast.NotIn)):
                mapped = c.left
            if not (isinstance(mapped, ast.Call) and isinstance(mapped.func, ast.Attribute) and mapped.func.attr in ("lower", "upper", "casefold") and isinstance(mapped.func.value, ast.Name)):
                continue
            table = c.func.value if isinstance(c, ast.Call) else c.comparators[0]
            text = None
            if isinstance(table, ast.Constant) and isinstance(table.value, str):
                text = table.value
            elif isinstance(table, ast.Name):
                for s_ in list(f.own_nodes()) + list(f.module.tree.body):
                    if isinstance(s_, ast.Assign) and len(s_.targets) == 1 and norm(s_.targets[0]) == table.id:
                        v = s_.value
                        while isinstance(v, ast.Subscript):
                            v = v.value
                        if isinstance(v, ast.Constant) and isinstance(v.value, str):
                            text = v.value
                        elif isinstance(v, ast.Name):
                            for m_ in f.module.tree.body:
                                if isinstance(m_, ast.Assign) and norm(m_.targets[0]) == v.id and isinstance(m_.value, ast.Constant) and isinstance(m_.value.value, str):
                                    text = m_.value.value
            if text is None or not text.isascii() or not any(ch.isalpha() for ch in text):
                continue
            n += 1
            ch = mapped.func.value.id
            key = f"{f.qual}:{short(c, 40)}"
            guarded = any(norm(a) == f"{ch}.isascii()" and pol for t, p in known_conditions(c, f.node) for a, pol in atoms(t, p))
            if guarded:
                rep.ok(rid, key)
            else:
                rep.bad(rid, key, f"{f.qual} looks `{norm(mapped)}` up in an ASCII table (`{short(c, 50)}`) without knowing that `{ch}` is ASCII: the host maps U+212A KELVIN SIGN to k (and U+017F to s), so parseInt('\\u212a', 36) is 20 where ECMAScript stops at the first character that is not a digit of the radix", f"{f.module.rel}:{c.lineno}")
    if n == 0:
        rep.ok(rid, "no-case-mapped-lookup", {"note": "no table lookup of a case-mapped character in " + ", ".join(modules)})
