"""Built-in library rules (C16-C19 structural clauses)."""

from __future__ import annotations

import ast
import math
from typing import Dict, List, Optional, Set, Tuple

from ..core import AnalysisError, Func, call_name, const_str, norm, short, walk_no_nested
from ..util import guards_of


def rule_deliberate_errors_not_swallowed(ctx, rep, rid: str) -> None:
    rep.rule(rid, "an exception that library code raises on purpose (the stricter-mode IndexError of array writes) is not caught and ignored by its callers", floor=1)
    from .. import xflow

    x = xflow.get(ctx)
    n = 0
    for f in ctx.tree.funcs:
        if f.module.name not in ("vm", "context", "values"):
            continue
        for t in [k for k in f.own_nodes() if isinstance(k, ast.Try)]:
            for h in t.handlers:
                if h.type is None:
                    continue
                silent = all(isinstance(s, ast.Pass) for s in h.body)
                if not silent:
                    continue
                types = [norm(e).split(".")[-1] for e in (h.type.elts if isinstance(h.type, ast.Tuple) else [h.type])]
                # deliberate raises reachable from the try body
                hits = []
                for s in t.body:
                    for c in walk_no_nested(s):
                        if isinstance(c, ast.Call):
                            cs = ctx.cg.site_of_call.get(id(c))
                            if cs and cs.kind in ("resolved", "byname"):
                                for tg in cs.targets:
                                    for o in x.escapes(tg):
                                        if o[1] in types:
                                            hits.append(o)
                n += 1
                key = f"{f.qual}:except {norm(h.type)}: pass"
                if hits:
                    o = hits[0]
                    rep.bad(rid, key, f"{f.qual} catches and ignores {o[1]}, which {o[0]} raises on purpose ({o[3]}): the documented error becomes a silent no-op (the write is redirected to a string-keyed property)", f"{f.module.rel}:{h.lineno}")
                else:
                    rep.ok(rid, key)
    if n == 0:
        rep.ok(rid, "no-silent-handlers")


def rule_buffer_aliasing(ctx, rep, rid: str) -> None:
    rep.rule(rid, "a typed-array view that shares another view's buffer also derives its byte offset from it", floor=1)
    n = 0
    for f in ctx.tree.funcs:
        if f.module.name not in ("vm", "context", "values"):
            continue
        for a in f.own_nodes():
            if isinstance(a, ast.Assign) and isinstance(a.targets[0], ast.Attribute) and a.targets[0].attr == "_buffer" and norm(a.targets[0].value) != "self" and ((isinstance(a.value, ast.Attribute) and a.value.attr == "_buffer") or (isinstance(a.value, ast.Call) and isinstance(a.value.func, ast.Attribute) and "buffer" in a.value.func.attr and not a.value.args)):
                n += 1
                tgt = norm(a.targets[0].value)
                off = any(isinstance(b, ast.Assign) and norm(b.targets[0]) == f"{tgt}._byte_offset" for b in f.own_nodes())
                key = f"{f.qual}:{tgt}._buffer shared"
                if off:
                    rep.ok(rid, key)
                else:
                    rep.bad(rid, key, f"{f.qual} makes {tgt} share the source's buffer but leaves its byte offset at 0: the view reads and writes the wrong bytes (a.subarray(1)[0] is a[0])", f"{f.module.rel}:{a.lineno}")
    if n == 0:
        rep.ok(rid, "no-buffer-sharing-site")


def rule_number_text_pitfalls(ctx, rep, rid: str) -> None:
    rep.rule(rid, "number<->string conversion does not delegate to host routines whose grammar/format differs from ECMAScript's (repr(float), float(str)/int(str) on unvalidated text)", floor=2)
    vals = ctx.tree.mod("values")
    ts = vals.functions.get("to_string")
    tn = vals.functions.get("to_number")
    if ts is None or tn is None:
        raise AnalysisError("to_string/to_number not found")
    hit = [n for n in ts.own_nodes() if isinstance(n, ast.Call) and norm(n.func) in ("repr", "str") and n.args and isinstance(n.args[0], ast.Name) and any("float" in norm(t) for t, pol in guards_of(n, ts.node) if pol)]
    if hit:
        rep.bad(rid, f"{ts.qual}:{norm(hit[0].func)}(float)", f"to_string formats doubles with the host's {norm(hit[0].func)}(): exponent notation starts at 1e16 instead of 1e21 and is spelled 1e-07 / 1e+21 differently from ECMAScript", f"{vals.rel}:{hit[0].lineno}")
    else:
        rep.ok(rid, f"{ts.qual}:float-formatting")
    from . import implicit

    implicit._CTX[:] = [ctx]
    hits = [n for n in tn.own_nodes() if isinstance(n, ast.Call) and norm(n.func) in ("float", "int") and n.args and any(isinstance(x, ast.Name) for x in ast.walk(n.args[0])) and any(pol and "isinstance" in norm(t) and "str" in norm(t) for t, pol in guards_of(n, tn.node))]
    unchecked = [n for n in hits if not implicit._grammar_checked(n, n.args[0], tn)]
    if unchecked:
        rep.bad(rid, f"{tn.qual}:float(str)/int(str)", f"to_number hands script strings to the host's {norm(unchecked[0].func)}() without matching the ECMAScript StringNumericLiteral grammar first ({short(unchecked[0], 40)}): 'nan', 'infinity', '1_0' and non-ASCII digits are accepted", f"{vals.rel}:{unchecked[0].lineno}")
    else:
        rep.ok(rid, f"{tn.qual}:string-grammar", {"conversions_checked": len(hits)})
    # white space: str.strip() without an argument trims the host's set (U+001C..U+001F included)
    bare = [n for n in tn.own_nodes() if isinstance(n, ast.Call) and isinstance(n.func, ast.Attribute) and n.func.attr == "strip" and not n.args]
    if bare:
        rep.bad(rid, f"{tn.qual}:strip()", "to_number trims with str.strip(), whose white-space set differs from ECMAScript's StrWhiteSpace", f"{vals.rel}:{bare[0].lineno}")
    else:
        rep.ok(rid, f"{tn.qual}:white-space")


def _json_funcs(ctx) -> Tuple[Func, Func, Optional[Func]]:
    """JSON.parse native, JSON.stringify native, and the recursive value converter (found by shape: the
    self-recursive closure of the JSON factory that iterates over `._properties.items()`)."""
    parse = stringify = conv = None
    for f in ctx.tree.funcs:
        if f.module.name == "context" and f.name == "parse_fn":
            parse = f
        if f.module.name == "context" and f.name == "stringify_fn":
            stringify = f
    if parse is None or stringify is None:
        raise AnalysisError("JSON.parse / JSON.stringify natives not found")
    factory = stringify.parent
    inside = []
    for f in ctx.tree.funcs:
        g = f.parent
        while g is not None and g is not factory:
            g = g.parent
        if g is factory and f is not stringify and not isinstance(f.node, ast.Lambda):
            inside.append(f)
    by_name = {f.name: f for f in inside}

    def callees(f: Func) -> Set[str]:
        return {n.func.id for n in f.own_nodes() if isinstance(n, ast.Call) and isinstance(n.func, ast.Name) and n.func.id in by_name}

    def reaches_itself(f: Func) -> bool:
        seen: Set[str] = set()
        work = list(callees(f))
        while work:
            x = work.pop()
            if x == f.name:
                return True
            if x not in seen:
                seen.add(x)
                work.extend(callees(by_name[x]))
        return False

    # the converter: the (directly or mutually) recursive closure that classifies the value by type
    for f in inside:
        if reaches_itself(f) and any(isinstance(n, ast.Call) and norm(n.func) == "isinstance" for n in f.own_nodes()) and any(isinstance(n, ast.Return) and isinstance(n.value, ast.Constant) and n.value.value == "null" for n in f.own_nodes()):
            conv = f
    if conv is None:
        for f in inside:
            if reaches_itself(f) and any(isinstance(n, ast.For) and "_properties" in norm(n.iter) for n in f.own_nodes()):
                conv = f
    if conv is None:
        # the converter may live outside the factory (a method the native delegates to): follow resolved calls
        seen: Set[int] = set()
        work = [stringify]
        while work and conv is None:
            g = work.pop()
            if id(g) in seen:
                continue
            seen.add(id(g))
            for cs in ctx.cg.sites_of.get(id(g), []):
                if cs.kind != "resolved":
                    continue
                for t in cs.targets:
                    if isinstance(t.node, ast.Lambda) or t.module.name not in ("context", "vm", "values"):
                        continue
                    self_rec = any(c2.kind == "resolved" and any(x is t for x in c2.targets) for c2 in ctx.cg.sites_of.get(id(t), []))
                    if self_rec and any(isinstance(n, ast.Return) and isinstance(n.value, ast.Constant) and n.value.value == "null" for n in t.own_nodes()):
                        conv = t
                        break
                    if len(seen) < 12:
                        work.append(t)
    return parse, stringify, conv


def rule_json_codec(ctx, rep, rid: str) -> None:
    rep.rule(rid, "the host JSON codec is configured to the JSON/ECMAScript contract where its defaults deviate: parse rejects NaN/Infinity constants, stringify does not ASCII-escape and does not print non-finite numbers or host float spellings", floor=2)
    parse, stringify, conv = _json_funcs(ctx)
    for n in parse.own_nodes():
        if isinstance(n, ast.Call) and norm(n.func) == "json.loads":
            kws = {k.arg for k in n.keywords}
            key = f"{parse.qual}:json.loads"
            if "parse_constant" in kws:
                rep.ok(rid, key)
            else:
                rep.bad(rid, key, "JSON.parse calls json.loads without parse_constant: the host default accepts NaN, Infinity and -Infinity, which are not JSON", f"{parse.module.rel}:{n.lineno}")
    for f in (stringify, conv):
        if f is None:
            continue
        for n in f.own_nodes():
            if isinstance(n, ast.Call) and norm(n.func) == "json.dumps":
                kws = {k.arg: norm(k.value) for k in n.keywords}
                key = f"{f.qual}:json.dumps"
                if kws.get("ensure_ascii") != "False":
                    rep.bad(rid, key + ":ensure_ascii", "JSON.stringify calls json.dumps with the host default ensure_ascii=True: non-ASCII characters are written as \\uXXXX escapes, which ECMAScript does not do", f"{f.module.rel}:{n.lineno}")
                else:
                    rep.ok(rid, key + ":ensure_ascii")
                arg0 = n.args[0] if n.args else None
                only_str = False
                if isinstance(arg0, ast.Name):
                    if any(pol and norm(t) == f"isinstance({arg0.id}, str)" for t, pol in guards_of(n, f.node)):
                        only_str = True
                    for lp in f.own_nodes():
                        if isinstance(lp, ast.For) and "_properties" in norm(lp.iter) and isinstance(lp.target, ast.Tuple) and isinstance(lp.target.elts[0], ast.Name) and lp.target.elts[0].id == arg0.id:
                            only_str = True  # a property key
                        # a key that is None or a property name, printed only where None was excluded
                        if isinstance(lp, ast.For) and isinstance(lp.iter, ast.Name) and isinstance(lp.target, ast.Tuple) and isinstance(lp.target.elts[0], ast.Name) and lp.target.elts[0].id == arg0.id and any(isinstance(a, ast.Assign) and any(isinstance(t_, ast.Name) and t_.id == lp.iter.id for t_ in a.targets) and "_properties" in norm(a.value) for a in f.own_nodes()):
                            from ..util import atoms, known_conditions

                            ats = [(norm(a_).replace(" ", ""), p_) for t_, pol_ in known_conditions(n, f.node) for a_, p_ in atoms(t_, pol_)]
                            if any((a_ == f"{arg0.id}isNone" and not p_) or (a_ == f"{arg0.id}isnotNone" and p_) for a_, p_ in ats):
                                only_str = True
                if only_str:
                    rep.ok(rid, key + ":allow_nan", {"note": "the host encoder only receives strings here"})
                elif kws.get("allow_nan") != "False":
                    rep.bad(rid, key + ":allow_nan", "JSON.stringify lets json.dumps print NaN/Infinity (host default allow_nan=True); ECMAScript prints null", f"{f.module.rel}:{n.lineno}")
                else:
                    rep.ok(rid, key + ":allow_nan")
    # numbers must not reach the host encoder as floats
    if conv is not None:
        for n in conv.own_nodes():
            host_spelling = isinstance(n, ast.Return) and n.value is not None and (isinstance(n.value, (ast.Name, ast.JoinedStr)) or (isinstance(n.value, ast.Call) and norm(n.value.func) in ("str", "repr", "json.dumps", "format", "float.__repr__")))
            if host_spelling:
                g = [norm(t) for t, pol in guards_of(n, conv.node) if pol]
                if any("(int, float)" in x for x in g):
                    rep.bad(rid, f"{conv.qual}:number-branch", "JSON.stringify hands Python floats to the host encoder, which prints 1.0 and 1e+21 where ECMAScript prints 1 and 1e+21 -> '1e+21'/'1': numbers must go through the engine's own number-to-string", f"{conv.module.rel}:{n.lineno}")
                    break
        else:
            rep.ok(rid, f"{conv.qual}:number-branch")


def rule_json_omission(ctx, rep, rid: str) -> None:
    rep.rule(rid, "JSON.stringify applies the omission rules: undefined and functions are skipped in objects, become null in arrays, and a non-serialisable root yields undefined", floor=2)
    parse, stringify, conv = _json_funcs(ctx)
    if conv is None:
        raise AnalysisError("the recursive JSON value converter was not found")
    key = f"{conv.qual}:object-omission"

    def _over_properties(n, g) -> bool:
        if not isinstance(n, ast.For):
            return False
        if "_properties" in norm(n.iter):
            return True
        # a local that one branch fills from the property table (`members = list(v._properties.items())`)
        return isinstance(n.iter, ast.Name) and any(isinstance(a, ast.Assign) and any(isinstance(t_, ast.Name) and t_.id == n.iter.id for t_ in a.targets) and "_properties" in norm(a.value) for a in g.own_nodes())

    loop = next((n for n in conv.own_nodes() if _over_properties(n, conv)), None)
    if loop is None:
        # the member loop lives in a helper closure of the same factory (mutually recursive with the converter)
        for f in ctx.tree.funcs:
            g = f.parent
            while g is not None and g is not stringify:
                g = g.parent
            if g is stringify and any(isinstance(n, ast.Call) and isinstance(n.func, ast.Name) and n.func.id == conv.name for n in f.own_nodes()):
                loop = next((n for n in f.own_nodes() if _over_properties(n, f)), None)
                if loop is not None:
                    break
    if loop is None:
        raise AnalysisError("the loop over an object's properties was not found in the JSON converter")
    valvar = loop.target.elts[1].id if isinstance(loop.target, ast.Tuple) and len(loop.target.elts) == 2 and isinstance(loop.target.elts[1], ast.Name) else None
    ok = False
    obj_filter = None
    # (a) the loop filters the value itself
    for n in ast.walk(loop):
        if isinstance(n, ast.If):
            t = norm(n.test)
            if valvar and valvar in t:
                obj_filter = t
                if "UNDEFINED" in t and ("callable" in t or "JSFunction" in t):
                    ok = True
    # (b) the converter has a "no JSON form" result (None) for undefined and functions, and the loop keeps an
    #     entry only when the recursive result is not None
    if not ok:
        none_guards = []
        for n in conv.own_nodes():
            if isinstance(n, ast.Return) and isinstance(n.value, ast.Constant) and n.value.value is None:
                none_guards.append(" and ".join(norm(t) for t, pol in guards_of(n, conv.node) if pol))
        has_sentinel = any("UNDEFINED" in g and ("JSFunction" in g or "callable" in g) for g in none_guards)
        tested = False
        for n in ast.walk(loop):
            if isinstance(n, ast.Assign) and isinstance(n.value, ast.Call) and ((isinstance(n.value.func, ast.Name) and n.value.func.id == conv.name) or (isinstance(n.value.func, ast.Attribute) and n.value.func.attr == conv.name)) and isinstance(n.targets[0], ast.Name):
                tv = n.targets[0].id
                for m in ast.walk(loop):
                    if isinstance(m, ast.If) and norm(m.test) == f"{tv} is not None":
                        tested = True
        if has_sentinel and tested:
            ok = True
        elif has_sentinel:
            obj_filter = "the recursive result, without testing it for 'no JSON form'"
    if ok:
        rep.ok(rid, key)
    else:
        rep.bad(rid, key, f"the object branch of JSON.stringify only filters `{obj_filter}`: function-valued properties are serialised as null instead of being omitted", conv.loc)
    root_ok = any(isinstance(n, ast.Return) and n.value is not None and "UNDEFINED" in norm(n.value) for n in stringify.own_nodes())
    key = f"{stringify.qual}:root"
    if root_ok:
        rep.ok(rid, key)
    else:
        rep.bad(rid, key, "JSON.stringify never returns undefined: stringify(undefined) and stringify(function(){}) yield the string 'null'", stringify.loc)


def _parents(n):
    p = getattr(n, "_parent", None)
    while p is not None:
        yield p
        p = getattr(p, "_parent", None)


def rule_no_stale_field_alias(ctx, rep, rid: str) -> None:
    """C17-R8: a method-table factory must not cache `receiver.<field>` in a local shared by its closures when
    that field is re-bound (assigned a new list) elsewhere: the closures would keep working on the old list."""
    rep.rule(rid, "method-table factories do not alias a receiver field that other code re-binds (e.g. arr._elements, which splice and the length setter replace) into a local captured by the method closures", floor=1)
    # fields that are re-bound somewhere: X.<field> = <new value> outside __init__
    rebound = {}
    for f in ctx.tree.funcs:
        if f.name == "__init__":
            continue
        for n in f.own_nodes():
            if isinstance(n, ast.Assign):
                for t in n.targets:
                    if isinstance(t, ast.Attribute) and t.attr.startswith("_") and not (isinstance(n.value, ast.Name)):
                        rebound.setdefault(t.attr, f"{f.qual}:{n.lineno}")
    n_fac = 0
    for f in ctx.tree.funcs:
        if not (f.name.startswith("_make_") and f.name.endswith("_method")):
            continue
        n_fac += 1
        recv = [p for p in f.params() if p not in ("self", "method")]
        if not recv:
            continue
        bad = None
        for n in f.own_nodes():  # factory level only (closures are separate functions)
            if isinstance(n, ast.Assign) and isinstance(n.targets[0], ast.Name) and isinstance(n.value, ast.Attribute) and isinstance(n.value.value, ast.Name) and n.value.value.id == recv[0]:
                attr = n.value.attr
                local = n.targets[0].id
                used = any(isinstance(x, ast.Name) and x.id == local for c in f.children.values() for x in c.own_nodes())
                if attr in rebound and used:
                    bad = (local, attr, n.lineno)
        key = f"{f.qual}:field-alias"
        if bad:
            rep.bad(rid, key, f"{f.qual} caches {recv[0]}.{bad[1]} in `{bad[0]}` for its method closures, but {bad[1]} is re-bound at {rebound[bad[1]]}: after that the method reads and mutates a detached list (e.g. a.push(a.splice(0,1)[0]) loses the push)", f"{f.module.rel}:{bad[2]}")
        else:
            rep.ok(rid, key)
    if n_fac < 5:
        raise AnalysisError(f"only {n_fac} method-table factories found")


# ---- stale index bound across a re-entrant call -------------------------------------------------

_SHARED_STORAGE = ("_elements", "_data")


def _reentrant_sites(ctx, f: Func):
    """Call nodes in f that can run script code (reach an interpreter loop) or an arbitrary native."""
    loops = {id(g) for g, _ in ctx.facts.dispatch_loops()}
    out = []
    for cs in ctx.cg.sites_of.get(id(f), []):
        if cs.kind == "dynamic":
            out.append(cs.call)
        elif any(id(t) in loops or ctx.cg.reaches(t, loops) for t in cs.targets):
            out.append(cs.call)
    # a generator hands control to its consumer at every yield: when a loop over it runs script code in its body
    # (the callback of forEach/map/..., an element's own toString), that code runs between two steps of the generator
    if not isinstance(f.node, ast.Lambda) and any(isinstance(y, (ast.Yield, ast.YieldFrom)) for y in f.own_nodes()) and not getattr(f, "_consumer_probe", False):
        f._consumer_probe = True
        try:
            consumer_runs_script = False
            for cs in ctx.cg.sites:
                if not any(t is f for t in cs.targets):
                    continue
                g = cs.func
                holder = getattr(cs.call, "_parent", None)
                # for .. in gen(..): body   |   <comprehension over gen(..)>
                sites_g = _reentrant_sites(ctx, g) if g is not f else []
                if isinstance(holder, ast.For) and holder.iter is cs.call:
                    if any(any(x is c for b in holder.body for x in ast.walk(b)) for c in sites_g):
                        consumer_runs_script = True
                elif isinstance(holder, ast.comprehension):
                    comp = getattr(holder, "_parent", None)
                    if comp is not None and any(any(x is c for x in ast.walk(comp)) for c in sites_g):
                        consumer_runs_script = True
            if consumer_runs_script:
                out.extend(y for y in f.own_nodes() if isinstance(y, (ast.Yield, ast.YieldFrom)))
        finally:
            f._consumer_probe = False
    return out


def rule_index_bound_survives_callback(ctx, rep, rid: str, floor: int = 2) -> None:
    """for i in range(.., len(arr._elements)) evaluates the bound once.  When the loop body can run script code,
    the script can shrink the array, and `arr._elements[i]` then raises a host IndexError.  Every such subscript
    needs a bound check against the CURRENT length inside the iteration (or iteration over the list itself)."""
    rep.rule(rid, "inside a loop whose body can re-enter script code, every index into an object's shared element storage is checked against the storage's current length in the same iteration (a bound computed before the loop is stale once the callback shrinks the array)", floor=floor)
    sr = ctx.facts.script_reachable()
    for f in ctx.tree.funcs:
        if id(f) not in sr or f.module.name.startswith("regex"):
            continue
        re_sites = None
        # local names that alias shared storage (elements = arr._elements), in f or an enclosing function
        aliases = set()
        h = f
        while h is not None:
            for n in h.own_nodes():
                if isinstance(n, ast.Assign) and len(n.targets) == 1 and isinstance(n.targets[0], ast.Name) and isinstance(n.value, ast.Attribute) and n.value.attr in _SHARED_STORAGE:
                    aliases.add(n.targets[0].id)
            h = h.parent
        for loop in f.own_nodes():
            if not isinstance(loop, (ast.For, ast.While)):
                continue
            subs = []
            for n in walk_no_nested(loop):
                if isinstance(n, ast.Subscript) and isinstance(n.ctx, ast.Load) and ((isinstance(n.value, ast.Attribute) and n.value.attr in _SHARED_STORAGE) or (isinstance(n.value, ast.Name) and n.value.id in aliases)) and not isinstance(n.slice, (ast.Slice, ast.Constant)):
                    if any(n is x for b in loop.body for x in ast.walk(b)):
                        subs.append(n)
            if not subs:
                continue
            if re_sites is None:
                re_sites = _reentrant_sites(ctx, f)
            inloop = [c for c in re_sites if any(c is x for b in loop.body for x in ast.walk(b))]
            if not inloop:
                continue
            for sub in subs:
                store = norm(sub.value)
                idx = norm(sub.slice)
                key = f"{f.qual}:{store}[{idx}]:in-loop-with-callback"
                # accepted idioms
                fresh = False
                # (a) enclosing guard mentions len(<store>) in this iteration
                for t, pol in guards_of(sub, loop):
                    if f"len({store})" in norm(t):
                        fresh = True
                # (b) an earlier statement of the same iteration: `if <idx> >= len(store): break/continue/return`
                for st in loop.body:
                    if st.lineno >= sub.lineno:
                        break
                    if isinstance(st, ast.If) and f"len({store})" in norm(st.test) and st.body and isinstance(st.body[-1], (ast.Break, ast.Continue, ast.Return, ast.Raise)):
                        if not any(c.lineno > st.lineno and c.lineno < sub.lineno for c in inloop):
                            fresh = True
                # (c) while-loop whose own test reads the current length, subscript before any callback of the iteration
                if isinstance(loop, ast.While) and f"len({store})" in norm(loop.test) and not any(c.lineno < sub.lineno for c in inloop):
                    fresh = True
                # (d) for-range bound is fine only when no callback can run before the subscript in ANY iteration: never (the previous iteration's callback precedes it)
                if fresh:
                    rep.ok(rid, key)
                else:
                    cb = inloop[0]
                    rep.bad(rid, key, f"{f.qual}: {store}[{idx}] is indexed inside a loop that also runs script code ({short(cb, 50)}); the loop bound was computed before the loop, so a callback that shrinks the array makes this a host IndexError", f"{f.module.rel}:{sub.lineno}")
    # floor control: the rule must have looked at the callback-driven array methods


# ---- stale local alias of a re-bindable field across a re-entrant call -----------------------------

def _rebound_container_fields(ctx) -> Dict[str, str]:
    """Private fields that some function other than a constructor re-binds to a NEW container
    (`arr._elements = arr._elements[:n]`, `= []`, `= list(...)`, `= a + b`): attr -> where."""
    out: Dict[str, str] = {}
    for f in ctx.tree.funcs:
        if f.name == "__init__":
            continue
        fresh = {t.id for n in f.own_nodes() if isinstance(n, ast.Assign) and isinstance(n.value, ast.Call) and isinstance(n.value.func, ast.Name) and n.value.func.id[:1].isupper() for t in n.targets if isinstance(t, ast.Name)}
        for n in f.own_nodes():
            if isinstance(n, ast.Assign):
                for t in n.targets:
                    if isinstance(t, ast.Attribute) and t.attr.startswith("_") and isinstance(n.value, (ast.List, ast.ListComp, ast.BinOp, ast.Subscript, ast.Call, ast.Dict, ast.DictComp)):
                        if isinstance(n.value, ast.Subscript) and not isinstance(n.value.slice, ast.Slice):
                            continue  # an element, not a new container
                        if isinstance(t.value, ast.Name) and t.value.id in fresh:
                            continue  # filling in an object this function has just created
                        out.setdefault(t.attr, f"{f.qual}:{n.lineno}")
    return out


def rule_no_stale_local_alias(ctx, rep, rid: str, floor: int = 3) -> None:
    """`elements = arr._elements` followed by a call that can run script code, followed by another use of
    `elements`: the script may have re-bound arr._elements (length assignment, splice), so the local is a
    detached list.  Obligation per function that runs script code and reads such a field: no path
    alias-assignment -> re-entrant call -> use of the alias without the alias being re-read in between."""
    rep.rule(rid, "a function that can re-enter script code does not keep using a local alias of an object's re-bindable storage field (arr._elements, ...) after the re-entrant call: the field is re-read (or the alias re-assigned) on every path from the call to the next use", floor=floor)
    rebound = _rebound_container_fields(ctx)
    sr = ctx.facts.script_reachable()
    for f in ctx.tree.funcs:
        if id(f) not in sr or f.module.name.startswith("regex"):
            continue
        reads = [n for n in f.own_nodes() if isinstance(n, ast.Attribute) and isinstance(n.ctx, ast.Load) and n.attr in rebound and n.attr in _SHARED_STORAGE]
        if not reads:
            continue
        sites = _reentrant_sites(ctx, f)
        if not sites:
            continue
        key = f"{f.qual}:alias-across-callback"
        alias_assigns = [n for n in f.own_nodes() if isinstance(n, ast.Assign) and len(n.targets) == 1 and isinstance(n.targets[0], ast.Name) and isinstance(n.value, ast.Attribute) and n.value.attr in rebound and n.value.attr in _SHARED_STORAGE]
        bad = None
        if alias_assigns:
            cfg = ctx.facts.cfg(f)

            def contains(node, target) -> bool:
                return node.ast is not None and any(x is target for x in ast.walk(node.ast))

            for a in alias_assigns:
                name = a.targets[0].id
                a_nodes = [n for n in cfg.nodes if n.stmt is a or n.ast is a]
                writes = {n.id for n in cfg.nodes if n.ast is not None and any(isinstance(x, ast.Name) and x.id == name and isinstance(x.ctx, ast.Store) for x in ast.walk(n.ast))}
                for c in sites:
                    c_nodes = [n for n in cfg.nodes if contains(n, c)]
                    for an in a_nodes:
                        for cn in c_nodes:
                            # alias live at the call?
                            live = cfg.path_avoiding(an.id, lambda n: n.id == cn.id, writes - {an.id}, None, start_succ=True)
                            if live is None:
                                continue
                            use = cfg.path_avoiding(cn.id, lambda n: n.ast is not None and any(isinstance(x, ast.Name) and x.id == name and isinstance(x.ctx, ast.Load) for x in ast.walk(n.ast)), writes, None, start_succ=True)
                            if use is not None:
                                bad = (name, a, c, use[-1])
                                break
                        if bad:
                            break
                    if bad:
                        break
                if bad:
                    break
        if bad:
            name, a, c, use = bad
            rep.bad(rid, key, f"{f.qual}: `{name}` aliases {norm(a.value)} (line {a.lineno}) and is used again at line {use.line} after {short(c, 50)} (line {c.lineno}) may have run script code; {a.value.attr} is re-bound at {rebound[a.value.attr]} (e.g. by a length assignment in the callback), so the local is a detached list", f"{f.module.rel}:{use.line}")
        else:
            rep.ok(rid, key, {"reads": len(reads), "reentrant_sites": len(sites), "aliases": len(alias_assigns)})


# ---- printing an integral double through int() ---------------------------------------------------------
def rule_integral_double_printing(ctx, rep, rid: str) -> None:
    """An integral double beyond 2**53 has an exact integer value with up to 309 digits; ECMAScript prints the
    shortest digits that round-trip, padded with zeros (2**60 -> 1152921504606847000), and switches to exponent
    notation at 1e21.  `str(int(x))` prints the exact value.  Where a float is printed as an integer because it
    `is_integer()`, the magnitude has to be bounded by 2**53 (below that both spellings agree), or the text has to
    come from the engine's own number formatter.  The same goes for str()/repr() of a float: the host's spelling
    (1e-07, 1e+16 thresholds) is not ECMAScript's."""
    rep.rule(rid, "no number-to-text path prints an integral float through int() without bounding it by 2**53, and none formats a float with the host's str()/repr(): decimal text of a Number comes from the engine's formatter", floor=3)
    n_sites = 0
    for f in ctx.tree.funcs:
        if f.module.name not in ("vm", "values", "context") or isinstance(f.node, ast.Lambda):
            continue
        for n in f.own_nodes():
            if not (isinstance(n, ast.Call) and isinstance(n.func, ast.Name) and n.func.id == "int" and len(n.args) == 1 and isinstance(n.args[0], ast.Name)):
                continue
            v = n.args[0].id
            gs = [(norm(t), pol) for t, pol in guards_of(n, f.node)]
            if not any(pol and f"{v}.is_integer()" in t for t, pol in gs):
                continue
            # does the integer become text?  str(int(v)) / f"{int(v)}" / v = int(v) followed by str(v)
            p = getattr(n, "_parent", None)
            texty = (isinstance(p, ast.Call) and norm(p.func) == "str") or isinstance(p, ast.FormattedValue)
            if isinstance(p, ast.Assign) and isinstance(p.targets[0], ast.Name):
                w = p.targets[0].id
                texty = any(isinstance(x, ast.Call) and norm(x.func) == "str" and x.args and norm(x.args[0]) == w for x in f.own_nodes()) or any(isinstance(x, ast.FormattedValue) and norm(x.value) == w for x in f.own_nodes())
            if not texty:
                continue
            n_sites += 1
            key = f"{f.qual}:int({v})->text"
            bounded = any(pol and ("2**53" in t.replace(" ", "") or "9007199254740992" in t or "9007199254740991" in t or "MAX_SAFE" in t) and v in t for t, pol in gs)
            if bounded:
                rep.ok(rid, key, {"bound": "2**53"})
            else:
                rep.bad(rid, key, f"{f.qual} prints the float `{v}` as int({v}) because it is_integer(), without bounding it by 2**53: doubles beyond that print their exact integer value (2**60 -> 1152921504606846976) where ECMAScript prints the shortest round-tripping digits (1152921504606847000), and 1e21 and above must switch to exponent notation", f"{f.module.rel}:{n.lineno}")
    # host str()/repr() of the receiver number in the number-method factories and in to_string
    for f in ctx.tree.funcs:
        if isinstance(f.node, ast.Lambda) or f.module.name not in ("vm", "values", "context"):
            continue
        in_number_family = f.name == "to_string" or any(g.name.startswith("_make_number_method") or g.name.startswith("_number_to") for g in _ancestors(f))
        if not in_number_family:
            continue
        for n in f.own_nodes():
            if isinstance(n, ast.Call) and isinstance(n.func, ast.Name) and n.func.id in ("str", "repr") and len(n.args) == 1 and isinstance(n.args[0], ast.Name):
                v = n.args[0].id
                gs = [(norm(t), pol) for t, pol in guards_of(n, f.node)]
                if any(pol and f"isinstance({v}, int)" in t for t, pol in gs):
                    continue
                # is v a Number of either representation?  the receiver `n` of the number methods, or a value
                # guarded as float
                is_number = (v == "n" and f.name != "to_string") or any(pol and "float" in t and v in t for t, pol in gs) or any(a.arg == v and a.annotation is not None and norm(a.annotation) in ("float", "Union[int, float]") for a in f.node.args.args)
                if not is_number:
                    continue
                n_sites += 1
                key = f"{f.qual}:{n.func.id}({v})"
                rep.bad(rid, key, f"{f.qual} formats the Number `{v}` with the host's {n.func.id}(): 1e-7 prints as 1e-07, exponent notation starts at 1e16 instead of 1e21, integral floats print a trailing .0", f"{f.module.rel}:{n.lineno}")
    # host str()/repr()/f-string of a value read out of a script container (an element of a typed array, an array
    # element, a property): it may be a float, and script text of a script value comes from to_string
    readers = {m for ci in ctx.tree.mod("values").classes.values() for m in ci.methods if m in ("get", "get_index", "get_element")}
    for f in ctx.tree.funcs:
        if isinstance(f.node, ast.Lambda) or f.module.name not in ("vm", "values", "context"):
            continue
        for n in f.own_nodes():
            arg = None
            if isinstance(n, ast.Call) and isinstance(n.func, ast.Name) and n.func.id in ("str", "repr") and len(n.args) == 1:
                arg = n.args[0]
            elif isinstance(n, ast.FormattedValue):
                arg = n.value
            if not (isinstance(arg, ast.Call) and isinstance(arg.func, ast.Attribute) and arg.func.attr in readers):
                continue
            up = n
            in_raise = False
            while up is not None and up is not f.node:
                if isinstance(up, ast.Raise):
                    in_raise = True
                up = getattr(up, "_parent", None)
            if in_raise:
                continue  # the text of an error message, not a script value
            n_sites += 1
            rep.bad(rid, f"{f.qual}:host-text-of-{norm(arg)[:40]}", f"{f.qual} turns the script value `{norm(arg)[:50]}` into text with the host's str()/format: a float element prints as nan/inf/1e-07/1.0 where ECMAScript prints NaN/Infinity/1e-7/1; script text of a script value comes from to_string", f"{f.module.rel}:{n.lineno}")
    rep.ok(rid, "number-text-paths", {"sites_examined": n_sites})
    vals = ctx.tree.mod("values")
    ts = vals.functions.get("to_string")
    if ts is None:
        raise AnalysisError("to_string not found")
    fmt = [c for c in ts.own_nodes() if isinstance(c, ast.Call) and isinstance(c.func, ast.Name) and c.func.id.startswith("_float_to")]
    if fmt:
        rep.ok(rid, f"{ts.qual}:floats-through-the-formatter", {"formatter": fmt[0].func.id})
    else:
        rep.bad(rid, f"{ts.qual}:floats-through-the-formatter", "to_string no longer hands floats to the engine's number formatter", ts.loc)
    int_branch = [n for n in ts.own_nodes() if isinstance(n, ast.Call) and norm(n.func) == "str" and n.args and isinstance(n.args[0], ast.Name)]
    for c in int_branch:
        v = c.args[0].id
        key = f"{ts.qual}:str({v})"
        # every assignment of v inside to_string must not come from int(<float>)
        bad = [a for a in ts.own_nodes() if isinstance(a, ast.Assign) and any(isinstance(t, ast.Name) and t.id == v for t in a.targets) and isinstance(a.value, ast.Call) and norm(a.value.func) == "int"]
        if bad and not any(pol and "2**53" in norm(t).replace(" ", "") for t, pol in guards_of(bad[0], ts.node)):
            rep.bad(rid, key, f"to_string turns `{v}` into an int (line {bad[0].lineno}) and prints it with str(): integral doubles beyond 2**53 then print their exact digits instead of the shortest round-tripping ones", f"{vals.rel}:{bad[0].lineno}")
        else:
            rep.ok(rid, key)


def _ancestors(f: Func):
    g = f
    while g is not None:
        yield g
        g = g.parent


# ---- typed-array views: the buffer is the truth -----------------------------------------------------------
def rule_typed_array_reads_through_buffer(ctx, rep, rid: str) -> None:
    """A typed array over an ArrayBuffer keeps a private list `_data` that only mirrors what was written through
    this very view; other views write the buffer.  Element reads therefore go through get_index (which reads the
    buffer); reading `_data` of a typed array from outside its class sees stale values for shared buffers."""
    rep.rule(rid, "outside the typed-array class, element values of a typed array are obtained through get_index (the buffer is read for views): `_data` of a typed array is only measured with len(), never read or iterated", floor=1)
    n = 0
    for f in ctx.tree.funcs:
        if isinstance(f.node, ast.Lambda) or f.module.name not in ("vm", "context"):
            continue
        in_ta_factory = any(g.name == "_make_typed_array_method" for g in _ancestors(f))
        recv = None
        if in_ta_factory:
            fac = next(g for g in _ancestors(f) if g.name == "_make_typed_array_method")
            ps = [p for p in fac.params() if p not in ("self", "method")]
            recv = ps[0] if ps else None
        for x in f.own_nodes():
            if not (isinstance(x, ast.Attribute) and x.attr == "_data" and isinstance(x.ctx, ast.Load) and isinstance(x.value, ast.Name)):
                continue
            v = x.value.id
            typed = (v == recv) or any(pol and norm(t).startswith(f"isinstance({v}, ") and "TypedArray" in norm(t) for t, pol in guards_of(x, f.node))
            if not typed:
                continue
            p = getattr(x, "_parent", None)
            n += 1
            key = f"{f.qual}:{v}._data:{type(p).__name__}"
            if isinstance(p, ast.Call) and norm(p.func) == "len":
                rep.ok(rid, key, {"use": "len"})
            elif isinstance(p, ast.Subscript) and isinstance(p.ctx, ast.Store):
                rep.ok(rid, key, {"use": "initialising write"})
            else:
                rep.bad(rid, key, f"{f.qual} reads element values from {v}._data ({short(p, 40)}): for a view over a shared ArrayBuffer that list only mirrors writes made through the same view, so values written through a sibling view, a subarray or a view of another width are missed (get_index reads the buffer)", f"{f.module.rel}:{x.lineno}")
    rep.ok(rid, "typed-array-mirror", {"reads_examined": n})


def _is_buffer_identity(e: ast.AST) -> bool:
    return isinstance(e, ast.Compare) and len(e.ops) == 1 and isinstance(e.ops[0], ast.Is) and isinstance(e.left, ast.Attribute) and e.left.attr == "_buffer" and isinstance(e.comparators[0], ast.Attribute) and e.comparators[0].attr == "_buffer"


def _materialised_when_shared(f: Func, gname: str) -> bool:
    """`gname = list(gname)` under a condition that is exactly "the source is a view of the receiver's buffer" (the
    identity of the two buffers, directly or as the final result of a local helper whose earlier exits only say
    "shares nothing"), with no narrower condition and-ed to it."""
    for a in f.own_nodes():
        if not (isinstance(a, ast.Assign) and any(isinstance(t, ast.Name) and t.id == gname for t in a.targets) and isinstance(a.value, ast.Call) and norm(a.value.func) in ("list", "tuple") and a.value.args and norm(a.value.args[0]) == gname):
            continue
        p = getattr(a, "_parent", None)
        if not isinstance(p, ast.If) or a not in p.body:
            continue
        t = p.test
        if _is_buffer_identity(t):
            return True
        if isinstance(t, ast.Call) and isinstance(t.func, ast.Name):
            h = None
            g = f
            while g is not None and h is None:
                h = g.children.get(t.func.id)
                g = g.parent
            if h is not None and not isinstance(h.node, ast.Lambda):
                rets = [r for r in h.own_nodes() if isinstance(r, ast.Return) and r.value is not None]
                if rets and _is_buffer_identity(rets[-1].value) and all(isinstance(r.value, ast.Constant) and r.value.value is False for r in rets[:-1]):
                    return True
    return False


def rule_no_read_after_write_between_views(ctx, rep, rid: str) -> None:
    """A typed-array native that copies from a script-supplied typed array into its receiver must not interleave the
    reads with the writes: the source can be a view over the receiver's buffer, and an element written early is then
    read back later instead of its original value."""
    rep.rule(rid, "a typed-array native that copies elements from another (script-supplied) array into the receiver reads all source elements before the first write: no loop both writes the receiver and reads the source", floor=1)
    n = 0
    for f in ctx.tree.funcs:
        fam_ta = ctx.facts.family_methods().get("_make_typed_array_method", "_make_typed_array_method")
        if isinstance(f.node, ast.Lambda) or not any(g.name in ("_make_typed_array_method", fam_ta) for g in _ancestors(f)):
            continue
        fac = next(g for g in _ancestors(f) if g.name in ("_make_typed_array_method", fam_ta))
        ps = [p for p in fac.params() if p not in ("self", "method")]
        recv = ps[0] if ps else "arr"
        for loop in f.own_nodes():
            if not isinstance(loop, (ast.For, ast.While)):
                continue
            writes = [c for c in ast.walk(loop) if isinstance(c, ast.Call) and isinstance(c.func, ast.Attribute) and c.func.attr == "set_index" and norm(c.func.value) == recv]
            reads = [c for c in ast.walk(loop) if isinstance(c, ast.Call) and isinstance(c.func, ast.Attribute) and c.func.attr == "get_index" and norm(c.func.value) != recv and any(c is x for b in loop.body for x in ast.walk(b))]
            if not writes:
                continue
            # source values produced lazily (a generator the loop consumes) are read inside the loop as well
            if isinstance(loop, ast.For):
                consumed = {x.id for x in ast.walk(loop.iter) if isinstance(x, ast.Name)}
                for a in f.own_nodes():
                    if isinstance(a, ast.Assign) and any(isinstance(t, ast.Name) and t.id in consumed for t in a.targets) and isinstance(a.value, ast.GeneratorExp):
                        gname = next(t.id for t in a.targets if isinstance(t, ast.Name) and t.id in consumed)
                        if _materialised_when_shared(f, gname):
                            continue  # the lazy form is kept only for sources that share no memory with the receiver
                        reads += [c for c in ast.walk(a.value) if isinstance(c, ast.Call) and isinstance(c.func, ast.Attribute) and c.func.attr == "get_index" and norm(c.func.value) != recv]
                if isinstance(loop.iter, ast.GeneratorExp) or any(isinstance(x, ast.GeneratorExp) for x in ast.walk(loop.iter)):
                    reads += [c for c in ast.walk(loop.iter) if isinstance(c, ast.Call) and isinstance(c.func, ast.Attribute) and c.func.attr == "get_index" and norm(c.func.value) != recv]
            n += 1
            key = f"{f.qual}:copy-loop@{short(loop.target if isinstance(loop, ast.For) else loop.test, 20)}"
            if reads:
                rep.bad(rid, key, f"{f.qual} reads {norm(reads[0].func.value)}.get_index(..) and writes {recv}.set_index(..) in the same loop: when the source is a view over the receiver's buffer (a.set(a.subarray(0, 3), 1)) elements are overwritten before they are read", f"{f.module.rel}:{loop.lineno}")
            else:
                rep.ok(rid, key)
    rep.ok(rid, "typed-array-copy-loops", {"examined": n})


# ---- array elements become text through ToPrimitive -----------------------------------------------------
def rule_array_elements_to_text(ctx, rep, rid: str) -> None:
    """values.to_string knows no objects (it answers '[object Object]' for every one of them, arrays included).
    Where an Array native turns ELEMENTS into text (join, toString, the default sort order), an element that is an
    object has to go through the VM's ToPrimitive-aware conversion first."""
    rep.rule(rid, "in the Array natives, the plain to_string of the values module is applied to an array element (a loop variable over the elements, or a parameter of a local helper/comparator that receives elements) only where the element is known not to be a JSObject: nested arrays are joined, objects asked for their own toString", floor=2)
    from ..util import atoms, known_conditions

    n = 0
    for f in ctx.tree.funcs:
        if isinstance(f.node, ast.Lambda):
            continue
        anc = [g.name for g in _ancestors(f)]
        if not any(a in (ctx.facts.family_methods()["_make_array_method"], "_make_array_method", "_create_array_constructor") for a in anc):
            continue
        if f.node.args.vararg is not None:
            continue  # the natives themselves convert ARGUMENTS; elements reach the helpers below
        params = {a.arg for a in f.node.args.args}
        elems = set(params)
        for x in f.own_nodes():
            if isinstance(x, (ast.For, ast.comprehension)) and "_elements" in norm(x.iter) and isinstance(x.target, ast.Name):
                elems.add(x.target.id)
        for c in f.own_nodes():
            if not (isinstance(c, ast.Call) and isinstance(c.func, ast.Name) and c.func.id == "to_string" and len(c.args) == 1 and isinstance(c.args[0], ast.Name) and c.args[0].id in elems):
                continue
            v = c.args[0].id
            n += 1
            key = f"{f.qual}:to_string({v})"
            ats = [(norm(a), p) for t, pol in known_conditions(c, f.node) for a, p in atoms(t, pol)]
            ok = any(a.startswith(f"isinstance({v}, ") and "JSObject" in a and not p for a, p in ats) or any(a.startswith(f"isinstance({v}, ") and "JS" not in a and p for a, p in ats)
            if ok:
                rep.ok(rid, key)
            else:
                rep.bad(rid, key, f"{f.qual} converts the array element `{v}` with the plain to_string, which answers '[object Object]' for every object: a nested array or an object with its own toString is not asked for its text ([[2],[1]].sort() stays unsorted, [[1,2]].join() loses the inner elements)", f"{f.module.rel}:{c.lineno}")
    if n < 2:
        raise AnalysisError(f"{rid}: only {n} element-to-text conversion(s) found in the Array natives")


# ---- replacement templates are read once --------------------------------------------------------------
def rule_template_single_pass(ctx, rep, rid: str) -> None:
    """A `$` pattern of a replace() template must not be expanded with str.replace on the template: the text put in
    for `$&` is then read again for `$1`, a sentinel that protects `$$` can occur in the input, and a pattern the
    call does not support is deleted or kept by accident.  GetSubstitution reads the template once, left to right."""
    rep.rule(rid, "no runtime function expands the `$` patterns of a replacement template with str.replace passes (`t.replace('$&', m)`): substituted text would be read again as template; templates are expanded by one left-to-right scan", floor=1)
    def dollar_passes(tree_nodes):
        return [c for c in tree_nodes if isinstance(c, ast.Call) and isinstance(c.func, ast.Attribute) and c.func.attr == "replace" and c.args and ((isinstance(c.args[0], ast.Constant) and isinstance(c.args[0].value, str) and c.args[0].value.startswith("$")) or (isinstance(c.args[0], ast.JoinedStr) and c.args[0].values and isinstance(c.args[0].values[0], ast.Constant) and str(c.args[0].values[0].value).startswith("$")))]

    ctl = ast.parse("def f(t, m):\n    t = t.replace('$$', '\\x00')\n    return t.replace(f'${1}', m)\n")
    if len(dollar_passes(list(ast.walk(ctl)))) != 2:
        raise AnalysisError("positive control failed: `$` replace-pass detector")
    n = 0
    for f in ctx.tree.funcs:
        if isinstance(f.node, ast.Lambda) or f.module.name not in ("vm", "context", "values"):
            continue
        n += 1
        for c in dollar_passes(f.own_nodes()):
            rep.bad(rid, f"{f.qual}:{short(c, 40)}", f"{f.qual} expands a template pattern with a str.replace pass ({short(c, 50)}): text substituted by an earlier pass is read again as template, and patterns are handled in the order of the passes instead of left to right", f"{f.module.rel}:{c.lineno}")
    rep.ok(rid, "template-expansion", {"functions_examined": n})


# ---- signed number text ----------------------------------------------------------------------------------
def _pattern_text(ctx, f: Func, name: str) -> Optional[str]:
    for n in f.module.tree.body:
        if isinstance(n, ast.Assign) and any(isinstance(t, ast.Name) and t.id == name for t in n.targets) and isinstance(n.value, ast.Call) and norm(n.value.func) in ("re.compile",) and n.value.args:
            parts = [x.value for x in ast.walk(n.value.args[0]) if isinstance(x, ast.Constant) and isinstance(x.value, str)]
            return "".join(parts)
    return None


def rule_signed_number_text(ctx, rep, rid: str) -> None:
    """Two facts about the text of a Number.  (1) A host int has no negative zero: where text that may carry a sign is
    converted with int(), "-0" needs a result -0.0 of its own.  (2) Only the decimal literal may carry a sign: the
    pattern for 0x / 0o / 0b literals is matched against the text as it was trimmed, not against text from which a
    sign was cut off ("-0x10" is NaN)."""
    rep.rule(rid, "where string-to-number conversion hands text that its grammar allows to be signed to int() (directly, through float(), or through a helper that receives the text), the converting function has a negative-zero result for a zero with a minus sign; and a pattern for radix literals (0x/0o/0b) is never matched against text from which a leading sign was removed", floor=2)
    n = 0
    funcs = [f for f in ctx.tree.funcs if not isinstance(f.node, ast.Lambda) and f.module.name in ("values", "context", "lexer")]
    by_name = {}
    for f in funcs:
        by_name.setdefault(f.name, []).append(f)
    signed = {id(f): set() for f in funcs}
    for f in funcs:
        matches = [c for c in f.own_nodes() if isinstance(c, ast.Call) and isinstance(c.func, ast.Attribute) and c.func.attr in ("match", "fullmatch") and isinstance(c.func.value, ast.Name) and c.args and isinstance(c.args[0], ast.Name)]
        for c in matches:
            pt = _pattern_text(ctx, f, c.func.value.id)
            if pt is None:
                continue
            v = c.args[0].id
            if "[+-]" in pt or "[-+]" in pt or pt.startswith("-?"):
                signed[id(f)].add(v)
            if "[xX]" in pt or "0x" in pt.lower():
                # (2) the matched text must not have lost a sign
                n += 1
                key = f"{f.qual}:{c.func.value.id}.match({v})"
                cut = [a for a in f.own_nodes() if isinstance(a, ast.Assign) and any(isinstance(t, ast.Name) and t.id == v for t in a.targets) and isinstance(a.value, ast.Subscript) and norm(a.value.value) == v and isinstance(a.value.slice, ast.Slice) and a.lineno < c.lineno and any(("+-" in norm(t) or "-+" in norm(t) or "'-'" in norm(t) or '"-"' in norm(t)) for t, _ in guards_of(a, f.node))]
                if cut:
                    rep.bad(rid, key, f"{f.qual} matches the radix-literal pattern against `{v}` after cutting a leading sign off it (line {cut[0].lineno}): only decimal literals may be signed, so '-0x10' and '+0b11' must be NaN but are accepted", f"{f.module.rel}:{c.lineno}")
                else:
                    rep.ok(rid, key)
        # the integer hook of the host JSON parser receives the token text, which the JSON grammar lets start with '-'
        for c in f.own_nodes():
            if isinstance(c, ast.Call) and norm(c.func) == "json.loads":
                for kw in c.keywords:
                    if kw.arg == "parse_int" and isinstance(kw.value, ast.Name):
                        for g in by_name.get(kw.value.id, []):
                            if g.params():
                                signed[id(g)].add(g.params()[0])
    # signed text handed on to a helper: the helper's parameter is signed text too
    for _ in range(4):
        for f in funcs:
            for c in f.own_nodes():
                if isinstance(c, ast.Call) and isinstance(c.func, ast.Name) and c.func.id in by_name:
                    for i, a_ in enumerate(c.args):
                        if isinstance(a_, ast.Name) and a_.id in signed[id(f)]:
                            for g in by_name[c.func.id]:
                                if g.parent is None and i < len(g.params()):
                                    signed[id(g)].add(g.params()[i])
    # (1) int() of possibly signed text, or of the float() of it
    for f in funcs:
        st = set(signed[id(f)])
        if not st:
            continue
        via_float = {t.id for a in f.own_nodes() if isinstance(a, ast.Assign) and isinstance(a.value, ast.Call) and norm(a.value.func) == "float" and a.value.args and isinstance(a.value.args[0], ast.Name) and a.value.args[0].id in st for t in a.targets if isinstance(t, ast.Name)}
        for c in f.own_nodes():
            if isinstance(c, ast.Call) and isinstance(c.func, ast.Name) and c.func.id == "int" and len(c.args) == 1 and isinstance(c.args[0], ast.Name) and c.args[0].id in (st | via_float):
                n += 1
                key = f"{f.qual}:int({c.args[0].id}):negative-zero"
                has = any(isinstance(x, ast.UnaryOp) and isinstance(x.op, ast.USub) and isinstance(x.operand, ast.Constant) and x.operand.value == 0.0 and isinstance(x.operand.value, float) for x in f.own_nodes())
                if has:
                    rep.ok(rid, key)
                else:
                    rep.bad(rid, key, f"{f.qual} converts text that may start with a minus sign with int({c.args[0].id}) and has no result -0.0: '-0' becomes +0 (a host int has no negative zero), while '-0.0' keeps its sign", f"{f.module.rel}:{c.lineno}")
    if n < 2:
        raise AnalysisError(f"{rid}: string-to-number conversion not recognised ({n} sites)")


# ---- one function under two names -------------------------------------------------------------------------
# ECMAScript defines these properties as the *same function object* as the global of that name
SAME_FUNCTION = {"parseInt": "Number.parseInt is the global parseInt (ECMA-262 21.1.2.13)", "parseFloat": "Number.parseFloat is the global parseFloat (ECMA-262 21.1.2.12)"}


def _registrations(ctx, names) -> Dict[str, List[Tuple[Func, ast.AST, int]]]:
    """Where a built-in of one of the given names is installed: X.set("name", fn) and X["name"] = fn."""
    out: Dict[str, List[Tuple[Func, ast.AST, int]]] = {n: [] for n in names}
    for f in ctx.tree.funcs:
        if isinstance(f.node, ast.Lambda) or f.module.name != "context":
            continue
        for n in f.own_nodes():
            if isinstance(n, ast.Call) and isinstance(n.func, ast.Attribute) and n.func.attr == "set" and len(n.args) == 2 and isinstance(n.args[0], ast.Constant) and n.args[0].value in out:
                out[n.args[0].value].append((f, n.args[1], n.lineno))
            if isinstance(n, ast.Assign) and len(n.targets) == 1 and isinstance(n.targets[0], ast.Subscript) and isinstance(n.targets[0].slice, ast.Constant) and n.targets[0].slice.value in out:
                out[n.targets[0].slice.value].append((f, n.value, n.lineno))
    return out


def _registered_function(ctx, f: Func, e: ast.AST) -> Optional[Func]:
    if isinstance(e, ast.Name):
        g: Optional[Func] = f
        while g is not None:
            if e.id in g.children:
                return g.children[e.id]
            g = g.parent
        return ctx.tree.resolve_function_name(f.module, e.id)
    if isinstance(e, ast.Attribute) and isinstance(e.value, ast.Name) and e.value.id in ("self", "ctx") and f.cls is not None:
        return ctx.tree.find_method(f.cls, e.attr)
    return None


def _body_shape(g: Func) -> str:
    """The statements of g without docstring and comments, with `self.`/`ctx.` receivers unified."""
    body = [s for s in g.node.body if not (isinstance(s, ast.Expr) and isinstance(s.value, ast.Constant) and isinstance(s.value.value, str))]
    return "\n".join(norm(s) for s in body).replace("ctx.", "self.")


def rule_same_function_two_names(ctx, rep, rid: str) -> None:
    rep.rule(rid, "a built-in that ECMAScript defines as the same function object under two names (Number.parseInt / parseInt, Number.parseFloat / parseFloat) is installed from one function, or from two functions with the same statements: a second copy with different statements answers differently for some argument", floor=2)
    regs = _registrations(ctx, SAME_FUNCTION)
    n = 0
    for name, why in SAME_FUNCTION.items():
        rs = regs[name]
        if len(rs) < 2:
            raise AnalysisError(f"{rid}: fewer than two installations of {name} found ({len(rs)})")
        funcs = []
        for f, e, ln in rs:
            g = _registered_function(ctx, f, e)
            if g is None:
                raise AnalysisError(f"{rid}: {name} is installed from `{norm(e)}` in {f.qual}, which is not a function of the repository")
            funcs.append((g, f, ln))
        n += 1
        key = f"{name}:one-function"
        first = funcs[0][0]
        other = next(((g, f, ln) for g, f, ln in funcs[1:] if g is not first and _body_shape(g) != _body_shape(first)), None)
        if other is None:
            rep.ok(rid, key, {"installed_from": sorted({g.qual for g, _, _ in funcs}), "why": why})
        else:
            g, f, ln = other
            rep.bad(rid, key, f"{name} is installed from {first.qual} and from {g.qual}, whose statements differ: {why}, so the two answer differently for some argument (the copies of parseFloat disagreed on 'Infinity')", f"{f.module.rel}:{ln}")
    rep.analysed["same_function_names"] = n


# ---- subarray is a view, whatever the receiver was made from ---------------------------------------------------
def rule_subarray_shares_memory(ctx, rep, rid: str) -> None:
    """TypedArray.prototype.subarray returns a new array over the SAME buffer: writes through either are seen by the
    other.  The engine keeps a buffer only for arrays that were made over one; a subarray of an array made from a
    length or a list has to get (and give its receiver) a buffer all the same, or it is a copy."""
    rep.rule(rid, "every typed array that subarray returns has its buffer set, on every path, from the receiver by an expression that cannot be None (a method that creates the receiver's buffer when it has none, or the attribute under a test that it is not None with the other arm creating one): a subarray is never a copy", floor=1)
    from ..util import known_conditions

    fs = [f for f in ctx.tree.funcs if not isinstance(f.node, ast.Lambda) and f.parent is not None and f.parent.name == "_make_typed_array_method" and "subarray" in f.name]
    if not fs:
        raise AnalysisError(f"{rid}: the subarray native was not found")
    optional_attrs = {"_buffer"}  # initialised with None in JSTypedArray.__init__
    for f in fs:
        rets = [r for r in f.own_nodes() if isinstance(r, ast.Return) and isinstance(r.value, ast.Name)]
        for r in rets:
            v = r.value.id
            key = f"{f.qual}:{v}._buffer"
            sets = [a for a in f.own_nodes() if isinstance(a, ast.Assign) and any(norm(t) == f"{v}._buffer" for t in a.targets)]
            if not sets:
                rep.bad(rid, key, f"{f.qual} returns `{v}` without giving it the receiver's buffer: the result is a copy, and `a.subarray(1)[0] = 9` does not change `a`", f"{f.module.rel}:{r.lineno}")
                continue
            cfg = ctx.facts.cfg(f)
            snodes = {nd.id for nd in cfg.nodes if nd.ast is not None and any(x is a for a in sets for x in ast.walk(nd.ast))}
            rnode = [nd for nd in cfg.nodes if nd.ast is r]
            skipping = cfg.path_avoiding(cfg.entry.id, lambda nd: bool(rnode) and nd.id == rnode[0].id, snodes, None) if rnode else None
            weak = None
            for a in sets:
                val = a.value
                if isinstance(val, ast.Attribute) and val.attr in optional_attrs:
                    guarded = any(pol and norm(val) in norm(t) and "None" in norm(t) and "is not" in norm(t) for t, pol in known_conditions(a, f.node))
                    if not guarded:
                        weak = a
            if skipping is not None:
                rep.bad(rid, key, f"{f.qual} can return `{v}` without passing `{short(sets[0], 40)}` (lines {[x.line for x in skipping if x.line][:6]}): on that path the result is a copy of the elements, not a view", f"{f.module.rel}:{sets[0].lineno}")
            elif weak is not None:
                rep.bad(rid, key, f"{f.qual} gives the result `{norm(weak.value)}`, which is None for an array made from a length or a list: the result then has no buffer of its own to share and is a copy (`var a = new Uint8Array([1,2]); a.subarray(1)[0] = 9` leaves `a` unchanged)", f"{f.module.rel}:{weak.lineno}")
            else:
                rep.ok(rid, key, {"buffer_from": [short(a.value, 40) for a in sets]})


# ---- a byte count becomes an element count only when it divides ------------------------------------------------
def rule_whole_elements_in_buffer(ctx, rep, rid: str) -> None:
    """`new Uint32Array(buffer)` without a length covers the rest of the buffer, which has to hold a whole number of
    elements (RangeError otherwise).  Floor division hides the remainder."""
    rep.rule(rid, "where a typed-array constructor derives an element count from a byte count by floor division by the element size, the same remainder was tested on the way and a RangeError raised for a non-zero one", floor=1)
    from ..util import known_conditions

    n = 0
    for f in ctx.tree.funcs:
        if isinstance(f.node, ast.Lambda) or "_create_typed_array_constructor" not in f.qual:
            continue
        for d in f.own_nodes():
            if not (isinstance(d, ast.BinOp) and isinstance(d.op, ast.FloorDiv) and "byteLength" in norm(d.left) and "size" in norm(d.right)):
                continue
            n += 1
            key = f"{f.qual}:{short(d, 40)}"
            want = f"{norm(d.left)} % {norm(d.right)}".replace("(", "").replace(")", "")
            ok = False
            for t, pol in known_conditions(d, f.node):
                if not pol and want in norm(t).replace("(", "").replace(")", ""):
                    ok = True
            if ok:
                rep.ok(rid, key)
            else:
                rep.bad(rid, key, f"{f.qual} computes the length as {short(d, 50)} without having refused a remainder: `new Uint32Array(new ArrayBuffer(7))` silently covers 4 of the 7 bytes where ECMAScript raises RangeError", f"{f.module.rel}:{d.lineno}")
    if n == 0:
        raise AnalysisError(f"{rid}: no length-from-bytes division found in the typed array constructor")


# ---- a host loop over a container that the script can change runs on a snapshot ---------------------------------
_LIVE_DICTS = ("_properties", "_getters", "_setters")
_SNAPSHOTS = ("list", "tuple", "sorted", "set", "frozenset", "dict")


def _live_iterable(e: ast.AST, aliases: Set[str]) -> Optional[Tuple[str, str]]:
    """('list'|'dict', text) when iterating e walks storage that script code can change while the loop runs."""
    if isinstance(e, ast.Call) and isinstance(e.func, ast.Name) and e.func.id in ("enumerate", "reversed", "zip", "iter") and e.args:
        for a in e.args:
            r = _live_iterable(a, aliases)
            if r is not None:
                return r
        return None
    if isinstance(e, ast.Call) and isinstance(e.func, ast.Attribute) and e.func.attr in ("items", "keys", "values") and not e.args:
        b = e.func.value
        if isinstance(b, ast.Attribute) and b.attr in _LIVE_DICTS:
            return "dict", norm(e)
        return None
    if isinstance(e, ast.Attribute) and e.attr in _SHARED_STORAGE:
        return "list", norm(e)
    if isinstance(e, ast.Attribute) and e.attr in _LIVE_DICTS:
        return "dict", norm(e)
    if isinstance(e, ast.Name) and e.id in aliases:
        return "list", e.id
    return None


def rule_live_container_iteration(ctx, rep, rid: str, floor: int = 3) -> None:
    """`for i, x in enumerate(arr._elements)` asks the list for its next element on every pass.  When the loop body can
    run script code (a callback, a user toString), the script can append: the loop then visits elements that were not
    there when the method was called - for ever, if each visit appends one - and for a dictionary the host raises
    RuntimeError (changed size during iteration).  ECMAScript fixes the range at the start."""
    rep.rule(rid, "a host loop (for statement, comprehension or generator) whose body can run script code does not iterate an object's element list or property dictionaries directly: it walks a snapshot (list(..), a slice, sorted(..)) or an index range fixed before the loop, so a callback that appends cannot extend the loop and a dictionary cannot change size under its iterator", floor=floor)
    sr = ctx.facts.script_reachable()
    n = 0
    for f in ctx.tree.funcs:
        if id(f) not in sr or isinstance(f.node, ast.Lambda) or f.module.name.startswith("regex"):
            continue
        aliases: Set[str] = set()
        h = f
        while h is not None:
            for a in h.own_nodes():
                if isinstance(a, ast.Assign) and len(a.targets) == 1 and isinstance(a.targets[0], ast.Name) and isinstance(a.value, ast.Attribute) and a.value.attr in _SHARED_STORAGE:
                    aliases.add(a.targets[0].id)
            h = h.parent
        loops: List[Tuple[ast.AST, ast.AST, List[ast.AST]]] = []  # (node, iterable, body nodes)
        for nd in f.own_nodes():
            if isinstance(nd, ast.For):
                loops.append((nd, nd.iter, nd.body))
            elif isinstance(nd, (ast.ListComp, ast.SetComp, ast.GeneratorExp, ast.DictComp)):
                body = [nd.elt] if not isinstance(nd, ast.DictComp) else [nd.key, nd.value]
                for g in nd.generators:
                    loops.append((nd, g.iter, body + list(g.ifs)))
        if not loops:
            continue
        re_sites = None
        for node, it, body in loops:
            live = _live_iterable(it, aliases)
            if live is None:
                continue
            if re_sites is None:
                re_sites = {id(c) for c in _reentrant_sites(ctx, f)}
            hit = next((x for b in body for x in ast.walk(b) if id(x) in re_sites), None)
            n += 1
            key = f"{f.qual}:for-in {short(it, 40)}"
            if hit is None:
                rep.ok(rid, key, {"body": "runs no script code"})
            elif live[0] == "list":
                rep.bad(rid, key, f"{f.qual} iterates {live[1]} itself while its body can run script code ({short(hit, 40)}): a callback that appends to the array extends the loop (one that appends on every visit never lets it end: `a.forEach(function(x){{a.push(x)}})`), where ECMAScript visits only the indices present at the start", f"{f.module.rel}:{node.lineno}")
            else:
                rep.bad(rid, key, f"{f.qual} iterates {live[1]} while its body can run script code ({short(hit, 40)}): a getter or callback that adds or deletes a property makes the host raise RuntimeError (dictionary changed size during iteration) out of eval", f"{f.module.rel}:{node.lineno}")
    rep.analysed["live_iterations"] = n
    if n < floor:
        raise AnalysisError(f"{rid}: only {n} loops over live element/property storage found (floor {floor})")


# ---- the host refuses to sort a list that changes while it is being sorted ---------------------------------------
def rule_sort_on_a_copy(ctx, rep, rid: str) -> None:
    """list.sort() empties the list for the duration of the sort and raises ValueError ("list modified during sort")
    when it finds something in it afterwards.  The comparator of Array.prototype.sort is script code and may well
    push to the array: the element list is therefore sorted as a copy (sorted(..)) and put back."""
    rep.rule(rid, "no in-place host sort (list.sort) is applied to an object's element list with a key or comparator that can run script code: the host raises ValueError when the list is touched meanwhile; a copy is sorted instead (sorted(..), or a sort of a local list)", floor=1)
    sr = ctx.facts.script_reachable()
    n = 0
    for f in ctx.tree.funcs:
        if id(f) not in sr or isinstance(f.node, ast.Lambda) or f.module.name.startswith("regex"):
            continue
        for c in f.own_nodes():
            if not isinstance(c, ast.Call):
                continue
            inplace = isinstance(c.func, ast.Attribute) and c.func.attr == "sort" and isinstance(c.func.value, ast.Attribute) and c.func.value.attr in _SHARED_STORAGE
            copied = isinstance(c.func, ast.Name) and c.func.id == "sorted" and c.args and isinstance(c.args[0], ast.Attribute) and c.args[0].attr in _SHARED_STORAGE
            if not (inplace or copied):
                continue
            n += 1
            key = f"{f.qual}:{short(c, 40)}"
            keyfn = next((k.value for k in c.keywords if k.arg == "key"), None)
            runs_script = False
            if keyfn is not None:
                # the comparator wrapped by cmp_to_key, or the key function itself: a local function with re-entrant calls
                names = {x.id for x in ast.walk(keyfn) if isinstance(x, ast.Name)}
                for g in f.children.values():
                    if g.name in names and not isinstance(g.node, ast.Lambda) and _reentrant_sites(ctx, g):
                        runs_script = True
                    # one level of helpers the comparator calls
                    for h2 in f.children.values():
                        if g.name in names and any(isinstance(x, ast.Call) and isinstance(x.func, ast.Name) and x.func.id == h2.name for x in g.own_nodes()) and _reentrant_sites(ctx, h2):
                            runs_script = True
            if inplace and (runs_script or keyfn is None and False):
                rep.bad(rid, key, f"{f.qual} sorts {norm(c.func.value)} in place with a comparator that can run script code: when the script touches the array during the sort (`a.sort(function(x,y){{a.push(1);return x-y}})`) the host raises ValueError: list modified during sort, which leaves eval as a host exception", f"{f.module.rel}:{c.lineno}")
            else:
                rep.ok(rid, key, {"in_place": inplace, "comparator_runs_script": runs_script})
    if n == 0:
        raise AnalysisError(f"{rid}: no sort of an element list found")


# ---- the spacing of doubles is that of the whole number, not of a part of it --------------------------------------
def rule_ulp_of_the_whole_number(ctx, rep, rid: str) -> None:
    """Shortest-digits printing stops when the digits written identify the double, i.e. when the rest is below half the
    distance to the neighbouring double.  That distance belongs to the NUMBER being printed; the ulp of its fraction
    alone is smaller as soon as the number is 1 or more, so digits keep coming that the number does not have."""
    rep.rule(rid, "in the number-to-text routines, math.ulp / math.nextafter is asked about the number being printed (the Number parameter of the routine, possibly through abs), never about a part computed from it (n - whole, a remainder) nor about a helper's parameter that receives such a part: the tolerance of the digit loop is the spacing of the whole number", floor=1)
    n_sites = 0
    vmcls = ctx.facts.vm_dispatcher()[0].cls
    fam = [f for f in ctx.tree.funcs if not isinstance(f.node, ast.Lambda) and f.module.name in ("vm", "values") and any(isinstance(c, ast.Call) and norm(c.func) in ("math.ulp", "math.nextafter") for c in f.own_nodes())]
    if not fam:
        raise AnalysisError(f"{rid}: no routine asks for the spacing of doubles (math.ulp / math.nextafter)")

    def derived_locals(f: Func) -> Set[str]:
        out: Set[str] = set()
        for a in f.own_nodes():
            if isinstance(a, ast.Assign) and len(a.targets) == 1 and isinstance(a.targets[0], ast.Name):
                v = a.value
                if isinstance(v, ast.BinOp) and isinstance(v.op, (ast.Sub, ast.Mod)):
                    out.add(a.targets[0].id)
                if isinstance(v, ast.Call) and norm(v.func) in ("math.modf", "math.fmod"):
                    out.add(a.targets[0].id)
            if isinstance(a, ast.Assign) and isinstance(a.targets[0], ast.Tuple) and isinstance(a.value, ast.Call) and norm(a.value.func) == "math.modf":
                out |= {t.id for t in a.targets[0].elts if isinstance(t, ast.Name)}
        return out

    def derived_params(f: Func) -> Dict[str, str]:
        """parameters of f that some caller binds to a part of a number: name -> description"""
        out: Dict[str, str] = {}
        ps = [p for p in f.params() if p != "self"]
        for cs in ctx.cg.sites:
            if not any(t is f for t in cs.targets):
                continue
            dl = derived_locals(cs.func)
            for i, a in enumerate(cs.call.args):
                if i >= len(ps):
                    break
                if (isinstance(a, ast.Name) and a.id in dl) or (isinstance(a, ast.BinOp) and isinstance(a.op, (ast.Sub, ast.Mod))):
                    out[ps[i]] = f"{cs.func.name} passes {short(a, 30)}"
        return out

    for f in fam:
        dl = derived_locals(f)
        dp = derived_params(f)
        for c in f.own_nodes():
            if not (isinstance(c, ast.Call) and norm(c.func) in ("math.ulp", "math.nextafter") and c.args):
                continue
            n_sites += 1
            a = c.args[0]
            while isinstance(a, ast.Call) and norm(a.func) == "abs" and a.args:
                a = a.args[0]
            key = f"{f.qual}:{short(c, 40)}"
            if isinstance(a, ast.Name) and a.id in dp:
                rep.bad(rid, key, f"{f.qual} takes the spacing of doubles from `{a.id}`, which is only a part of the number being printed ({dp[a.id]}): for a number of 1 or more the fraction's ulp is smaller than the number's, so the digit loop writes digits the double does not have ((1.5).toString(3) gets one digit too many)", f"{f.module.rel}:{c.lineno}")
            elif isinstance(a, ast.Name) and a.id in dl:
                rep.bad(rid, key, f"{f.qual} takes the spacing of doubles from `{a.id}`, a part computed from the number (a difference or remainder), not from the number being printed: the tolerance of the digit loop is too small for numbers of 1 or more", f"{f.module.rel}:{c.lineno}")
            else:
                rep.ok(rid, key, {"of": norm(a)})
    rep.analysed["ulp_sites"] = n_sites


# ---- rounded number formats take their digits from the exact value of the double ------------------------


def _power_of_ten(e: ast.AST, locals_: Dict[str, ast.AST]) -> bool:
    if isinstance(e, ast.Name) and e.id in locals_:
        e = locals_[e.id]
    if isinstance(e, ast.BinOp) and isinstance(e.op, ast.Pow) and isinstance(e.left, ast.Constant) and e.left.value in (10, 10.0):
        return True
    if isinstance(e, ast.Call) and norm(e.func) in ("pow", "math.pow") and e.args and isinstance(e.args[0], ast.Constant) and e.args[0].value in (10, 10.0):
        return True
    return isinstance(e, ast.Constant) and isinstance(e.value, float) and e.value not in (0.0, 1.0) and abs(math.log10(abs(e.value)) - round(math.log10(abs(e.value)))) < 1e-12 and abs(e.value) != 1


def rule_rounded_digits_exact(ctx, rep, rid: str) -> None:
    """toFixed, toExponential and toPrecision ask for the decimal digits nearest to the EXACT value of the double
    (ties to the larger).  1.45 is 1.4499999999999999555..., so toFixed(1) is 1.4; scaling by a power of ten in binary
    floating point (1.45 * 10 == 14.5 exactly) moves the value onto the tie and rounds the other way, log10 of a
    number just under a power of ten is the power's exponent, and the host's float formatting and round() break ties
    to even.  The routines and the helpers that receive the number therefore compute in exact arithmetic (Decimal /
    Fraction / integers) or take the host's shortest repr."""
    rep.rule(rid, "the routines that print a Number to a requested count of digits (the Number-method table's rounding formats and the helpers they pass the number to) never scale a float by a power of ten, never take a float logarithm for the exponent, and never hand a float to the host's rounding (round, '%.nf'/format specs): digits come from exact arithmetic on the double's value", floor=3)
    canon = ctx.facts.family_methods().get("_make_number_method", "_make_number_method")
    vmcls = ctx.facts.vm_dispatcher()[0].cls
    builder = ctx.tree.find_method(vmcls, canon)
    if builder is None:
        raise AnalysisError(f"{rid}: the Number method table builder was not found")
    # the rounding formats: closures of the builder that take a digit count and produce text that depends on it
    table = {}
    for d in builder.own_nodes():
        if isinstance(d, ast.Dict):
            for k, v in zip(d.keys, d.values):
                if isinstance(k, ast.Constant) and isinstance(v, ast.Name):
                    table[k.value] = v.id
    roots = [f for f in ctx.tree.funcs if f.parent is builder and not isinstance(f.node, ast.Lambda) and any(js in ("toFixed", "toExponential", "toPrecision") and py == f.name for js, py in table.items())]
    if len(roots) < 3:
        raise AnalysisError(f"{rid}: toFixed/toExponential/toPrecision not all found in the Number method table ({sorted(table)})")
    fam: Dict[int, Func] = {id(f): f for f in roots}
    q = list(roots)
    while q:
        g = q.pop()
        for cs in ctx.cg.sites_of.get(id(g), []):
            if cs.kind != "resolved":
                continue
            for t in cs.targets:
                if id(t) in fam or isinstance(t.node, ast.Lambda) or t.module.name != "vm" or t.cls is not None and t.name.startswith("_make_"):
                    continue
                # helpers that receive a number (any argument at all): the conversion functions of values.py are not followed
                if cs.call.args:
                    fam[id(t)] = t
                    q.append(t)
    for f in fam.values():
        locals_ = {a.targets[0].id: a.value for a in f.own_nodes() if isinstance(a, ast.Assign) and len(a.targets) == 1 and isinstance(a.targets[0], ast.Name)}
        bad: List[Tuple[int, str]] = []
        for x in f.own_nodes():
            if isinstance(x, ast.BinOp) and isinstance(x.op, (ast.Mult, ast.Div)):
                for a, b in ((x.left, x.right), (x.right, x.left)):
                    if _power_of_ten(a, locals_) and not (isinstance(b, ast.Constant) or _power_of_ten(b, locals_)):
                        # integer arithmetic on a value that is already an exact integer is fine: int(..) * 10**k
                        if isinstance(b, ast.Call) and norm(b.func) == "int" or isinstance(x.op, ast.Mult) and isinstance(b, ast.Name) and isinstance(locals_.get(b.id), ast.Call) and norm(locals_[b.id].func) in ("int", "_nearest_multiple"):
                            continue
                        bad.append((x.lineno, f"`{short(x, 40)}` scales by a power of ten in floating point"))
                        break
            if isinstance(x, ast.AugAssign) and isinstance(x.op, (ast.Mult, ast.Div)) and _power_of_ten(x.value, locals_):
                bad.append((x.lineno, f"`{short(x, 40)}` scales by a power of ten in floating point"))
            if isinstance(x, ast.Call) and norm(x.func) in ("math.log10", "math.log"):
                bad.append((x.lineno, f"`{short(x, 40)}` takes the exponent from a float logarithm"))
            if isinstance(x, ast.Call) and norm(x.func) == "round":
                bad.append((x.lineno, f"`{short(x, 40)}` rounds ties to even"))
            if isinstance(x, ast.FormattedValue) and x.format_spec is not None:
                spec = "".join(v.value for v in x.format_spec.values if isinstance(v, ast.Constant) and isinstance(v.value, str))
                if spec and spec[-1] in "feEgG" and "." in spec:
                    bad.append((x.lineno, f"the format spec `{spec}` rounds a float in the host (ties to even)"))
            if isinstance(x, ast.Call) and norm(x.func) == "format" and len(x.args) == 2:
                bad.append((x.lineno, f"`{short(x, 40)}` rounds in the host (ties to even)"))
            if isinstance(x, ast.BinOp) and isinstance(x.op, ast.Mod) and isinstance(x.left, ast.Constant) and isinstance(x.left.value, str) and any(c in x.left.value for c in ("f", "e", "g")) and "%." in x.left.value:
                bad.append((x.lineno, f"`{short(x, 40)}` rounds in the host (ties to even)"))
        key = f"{ctx.facts.canon_qual(f.qual)}:exact-digits"
        if not bad:
            rep.ok(rid, key)
        else:
            line, why = bad[0]
            rep.bad(rid, key, f"{f.qual} is on the path from toFixed/toExponential/toPrecision to the digits and {why}" + (f" (and {len(bad) - 1} more)" if len(bad) > 1 else "") + ": the exact value of the double is lost before it is rounded - (1.45).toFixed(1) is 1.4 and (10.235).toFixed(2) is 10.23 because the doubles lie below the tie, (2.5).toFixed(0) is 3 because ties go up", f"{f.module.rel}:{line}")


def rule_typed_array_sources(ctx, rep, rid: str) -> None:
    """new TypedArray(x) is specified for four kinds of x: a length, an ArrayBuffer, another typed array, and any other
    object (an array).  A constructor whose dispatch on the class of the argument leaves one of them to the final
    `return <empty>` silently builds an empty array from it."""
    rep.rule(rid, "the typed array constructor's dispatch on its first argument names the number types, the ArrayBuffer class, the array class and the typed array class before its catch-all", floor=1)
    f = next((g for g in ctx.tree.funcs if g.name == "constructor_fn" and g.parent is not None and ctx.facts.canon_qual(g.parent.qual).endswith("_create_typed_array_constructor")), None)
    if f is None:
        raise AnalysisError(f"{rid}: the typed array constructor native was not found")
    named: Set[str] = set()
    for c in f.own_nodes():
        if isinstance(c, ast.Call) and norm(c.func) == "isinstance" and len(c.args) == 2:
            k = c.args[1]
            named |= {norm(e) for e in (k.elts if isinstance(k, ast.Tuple) else [k])}
    want = {"number": {"int", "float"}, "ArrayBuffer": {"JSArrayBuffer"}, "Array": {"JSArray"}, "typed array": {"JSTypedArray"}}
    for kind, classes in want.items():
        key = f"{f.qual}:source:{kind}"
        if classes & named:
            rep.ok(rid, key)
        else:
            rep.bad(rid, key, f"{f.qual} has no branch for a {kind} argument ({'/'.join(sorted(classes))} is never tested): it falls to the catch-all and `new Uint8Array(x)` is an empty array, whatever x holds", f.loc)
