"""Built-in library rules (C16-C19 structural clauses)."""

from __future__ import annotations

import ast
from typing import Dict, List, Optional, Set, Tuple

from ..core import AnalysisError, Func, call_name, const_str, norm, short, walk_no_nested
from ..util import guards_of


def rule_deliberate_errors_not_swallowed(ctx, rep, rid: str) -> None:
    rep.rule(rid, "an exception that library code raises on purpose (the stricter-mode IndexError of array writes) is not caught and ignored by its callers", floor=1)
    from .. import xflow

    x = xflow.get(ctx)
    n = 0
    for f in ctx.tree.funcs:
        if f.module.name not in ("vm", "context", "values"):
            continue
        for t in [k for k in f.own_nodes() if isinstance(k, ast.Try)]:
            for h in t.handlers:
                if h.type is None:
                    continue
                silent = all(isinstance(s, ast.Pass) for s in h.body)
                if not silent:
                    continue
                types = [norm(e).split(".")[-1] for e in (h.type.elts if isinstance(h.type, ast.Tuple) else [h.type])]
                # deliberate raises reachable from the try body
                hits = []
                for s in t.body:
                    for c in walk_no_nested(s):
                        if isinstance(c, ast.Call):
                            cs = ctx.cg.site_of_call.get(id(c))
                            if cs and cs.kind in ("resolved", "byname"):
                                for tg in cs.targets:
                                    for o in x.escapes(tg):
                                        if o[1] in types:
                                            hits.append(o)
                n += 1
                key = f"{f.qual}:except {norm(h.type)}: pass"
                if hits:
                    o = hits[0]
                    rep.bad(rid, key, f"{f.qual} catches and ignores {o[1]}, which {o[0]} raises on purpose ({o[3]}): the documented error becomes a silent no-op (the write is redirected to a string-keyed property)", f"{f.module.rel}:{h.lineno}")
                else:
                    rep.ok(rid, key)
    if n == 0:
        rep.ok(rid, "no-silent-handlers")


def rule_buffer_aliasing(ctx, rep, rid: str) -> None:
    rep.rule(rid, "a typed-array view that shares another view's buffer also derives its byte offset from it", floor=1)
    n = 0
    for f in ctx.tree.funcs:
        if f.module.name not in ("vm", "context", "values"):
            continue
        for a in f.own_nodes():
            if isinstance(a, ast.Assign) and isinstance(a.targets[0], ast.Attribute) and a.targets[0].attr == "_buffer" and isinstance(a.value, ast.Attribute) and a.value.attr == "_buffer":
                n += 1
                tgt = norm(a.targets[0].value)
                off = any(isinstance(b, ast.Assign) and norm(b.targets[0]) == f"{tgt}._byte_offset" for b in f.own_nodes())
                key = f"{f.qual}:{tgt}._buffer shared"
                if off:
                    rep.ok(rid, key)
                else:
                    rep.bad(rid, key, f"{f.qual} makes {tgt} share the source's buffer but leaves its byte offset at 0: the view reads and writes the wrong bytes (a.subarray(1)[0] is a[0])", f"{f.module.rel}:{a.lineno}")
    if n == 0:
        rep.ok(rid, "no-buffer-sharing-site")


def rule_number_text_pitfalls(ctx, rep, rid: str) -> None:
    rep.rule(rid, "number<->string conversion does not delegate to host routines whose grammar/format differs from ECMAScript's (repr(float), float(str)/int(str) on unvalidated text)", floor=2)
    vals = ctx.tree.mod("values")
    ts = vals.functions.get("to_string")
    tn = vals.functions.get("to_number")
    if ts is None or tn is None:
        raise AnalysisError("to_string/to_number not found")
    hit = [n for n in ts.own_nodes() if isinstance(n, ast.Call) and norm(n.func) in ("repr", "str") and n.args and isinstance(n.args[0], ast.Name) and any("float" in norm(t) for t, pol in guards_of(n, ts.node) if pol)]
    if hit:
        rep.bad(rid, f"{ts.qual}:{norm(hit[0].func)}(float)", f"to_string formats doubles with the host's {norm(hit[0].func)}(): exponent notation starts at 1e16 instead of 1e21 and is spelled 1e-07 / 1e+21 differently from ECMAScript", f"{vals.rel}:{hit[0].lineno}")
    else:
        rep.ok(rid, f"{ts.qual}:float-formatting")
    hits = [n for n in tn.own_nodes() if isinstance(n, ast.Call) and norm(n.func) in ("float", "int") and n.args and isinstance(n.args[0], ast.Name)]
    validated = any(isinstance(n, ast.Call) and (norm(n.func).startswith("re.") or "match" in norm(n.func) or "_NUMERIC" in norm(n)) for n in tn.own_nodes())
    if hits and not validated:
        rep.bad(rid, f"{tn.qual}:float(str)/int(str)", "to_number hands script strings to the host's float()/int() without checking the ECMAScript StringNumericLiteral grammar first: 'nan', 'infinity', '1_0' and non-ASCII digits are accepted, and str.strip() trims a different whitespace set", f"{vals.rel}:{hits[0].lineno}")
    else:
        rep.ok(rid, f"{tn.qual}:string-grammar")


def _json_funcs(ctx) -> Tuple[Func, Func, Optional[Func]]:
    parse = stringify = conv = None
    for f in ctx.tree.funcs:
        if f.module.name == "context" and f.name == "parse_fn":
            parse = f
        if f.module.name == "context" and f.name == "stringify_fn":
            stringify = f
        if f.module.name == "context" and f.name == "to_json_value":
            conv = f
    if parse is None or stringify is None:
        raise AnalysisError("JSON.parse / JSON.stringify natives not found")
    return parse, stringify, conv


def rule_json_codec(ctx, rep, rid: str) -> None:
    rep.rule(rid, "the host JSON codec is configured to the JSON/ECMAScript contract where its defaults deviate: parse rejects NaN/Infinity constants, stringify does not ASCII-escape and does not print non-finite numbers or host float spellings", floor=3)
    parse, stringify, conv = _json_funcs(ctx)
    for n in parse.own_nodes():
        if isinstance(n, ast.Call) and norm(n.func) == "json.loads":
            kws = {k.arg for k in n.keywords}
            key = f"{parse.qual}:json.loads"
            if "parse_constant" in kws:
                rep.ok(rid, key)
            else:
                rep.bad(rid, key, "JSON.parse calls json.loads without parse_constant: the host default accepts NaN, Infinity and -Infinity, which are not JSON", f"{parse.module.rel}:{n.lineno}")
    for f in (stringify, conv):
        if f is None:
            continue
        for n in f.own_nodes():
            if isinstance(n, ast.Call) and norm(n.func) == "json.dumps":
                kws = {k.arg: norm(k.value) for k in n.keywords}
                key = f"{f.qual}:json.dumps"
                if kws.get("ensure_ascii") != "False":
                    rep.bad(rid, key + ":ensure_ascii", "JSON.stringify calls json.dumps with the host default ensure_ascii=True: non-ASCII characters are written as \\uXXXX escapes, which ECMAScript does not do", f"{f.module.rel}:{n.lineno}")
                else:
                    rep.ok(rid, key + ":ensure_ascii")
                if kws.get("allow_nan") != "False":
                    rep.bad(rid, key + ":allow_nan", "JSON.stringify lets json.dumps print NaN/Infinity (host default allow_nan=True); ECMAScript prints null", f"{f.module.rel}:{n.lineno}")
                else:
                    rep.ok(rid, key + ":allow_nan")
    # numbers must not reach the host encoder as floats
    if conv is not None:
        for n in conv.own_nodes():
            if isinstance(n, ast.Return) and isinstance(n.value, ast.Name):
                g = [norm(t) for t, pol in guards_of(n, conv.node) if pol]
                if any("(int, float)" in x for x in g):
                    rep.bad(rid, f"{conv.qual}:number-branch", "JSON.stringify hands Python floats to the host encoder, which prints 1.0 and 1e+21 where ECMAScript prints 1 and 1e+21 -> '1e+21'/'1': numbers must go through the engine's own number-to-string", f"{conv.module.rel}:{n.lineno}")
                    break
        else:
            rep.ok(rid, f"{conv.qual}:number-branch")


def rule_json_omission(ctx, rep, rid: str) -> None:
    rep.rule(rid, "JSON.stringify applies the omission rules: undefined and functions are skipped in objects, become null in arrays, and a non-serialisable root yields undefined", floor=2)
    parse, stringify, conv = _json_funcs(ctx)
    if conv is None:
        raise AnalysisError("to_json_value not found")
    obj_filter = None
    for n in conv.own_nodes():
        if isinstance(n, ast.If) and any("_properties" in norm(p) for p in _parents(n)):
            obj_filter = norm(n.test)
    key = f"{conv.qual}:object-omission"
    if obj_filter and ("callable" in obj_filter or "JSFunction" in obj_filter):
        rep.ok(rid, key)
    else:
        rep.bad(rid, key, f"the object branch of JSON.stringify only filters `{obj_filter}`: function-valued properties are serialised as null instead of being omitted", conv.loc)
    root_ok = any(isinstance(n, ast.Return) and norm(n.value) == "UNDEFINED" for n in stringify.own_nodes() if isinstance(n, ast.Return) and n.value is not None)
    key = f"{stringify.qual}:root"
    if root_ok:
        rep.ok(rid, key)
    else:
        rep.bad(rid, key, "JSON.stringify never returns undefined: stringify(undefined) and stringify(function(){}) yield the string 'null'", stringify.loc)


def _parents(n):
    p = getattr(n, "_parent", None)
    while p is not None:
        yield p
        p = getattr(p, "_parent", None)
