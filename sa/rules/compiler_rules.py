"""Structural rules over compiler.py that are not stack-depth obligations (C05-R4/R6/R9, C06-R1/R2)."""

from __future__ import annotations

import ast
import re
from typing import Any, Dict, List, Optional, Set, Tuple

from .. import emit
from ..core import AnalysisError, Func, norm, short, walk_no_nested

FUNC_CLASSES = ("FunctionDeclaration", "FunctionExpression", "ArrowFunctionExpression")


def node_schema(ctx) -> Dict[str, Dict[str, str]]:
    """class -> {field: annotation text} for every AST node dataclass; child fields are those
    whose annotation mentions a node class."""
    m = ctx.tree.mod("ast_nodes")
    classes = {}
    for name, ci in m.classes.items():
        fields = {}
        for s in ci.node.body:
            if isinstance(s, ast.AnnAssign) and isinstance(s.target, ast.Name):
                fields[s.target.id] = norm(s.annotation)
        classes[name] = fields
    return classes


def child_fields(schema: Dict[str, Dict[str, str]], cls: str, _leafcheck: bool = True) -> Dict[str, str]:
    """Fields of cls that can hold nodes with children of their own (leaf-only fields such as
    `label: Identifier` cannot contain a closure and are not required of a traversal)."""
    names = set(schema) - {"SourceLocation"}
    out = {}
    for f, ann in schema.get(cls, {}).items():
        toks = set(re.findall(r"[A-Za-z_]+", ann)) & names
        if not toks:
            continue
        if _leafcheck and all(t != "Node" and not child_fields(schema, t, False) for t in toks):
            continue
        out[f] = ann
    return out


# (traversal function, class, field) -> reason the traversal may skip it
TRAVERSAL_EXCEPTIONS = {
    ("_collect_var_decls", "VariableDeclaration", "declarations"): "handled through decl.id.name; initialisers cannot contain var statements outside nested functions",
    ("_collect_var_decls", "FunctionDeclaration", "params"): "parameters belong to the nested function",
    ("_collect_var_decls", "FunctionDeclaration", "body"): "var declarations of a nested function are its own locals",
    ("_collect_var_decls", "FunctionDeclaration", "id"): "handled through node.id.name",
}


def _traversals(ctx) -> List[Tuple[Func, str]]:
    """Hand-written AST traversals / child enumerators of the compiler: functions with an isinstance chain
    on their first parameter that fall back to the generic `param.__dict__` walk."""
    comp = ctx.tree.class_named("Compiler")
    out = []
    for f in ctx.tree.funcs:
        if f.cls is not comp:
            continue
        if f.name in ("_compile_statement", "_compile_expression", "_compile_statement_for_value"):
            continue
        params = [p for p in f.params() if p != "self"]
        if not params:
            continue
        var = params[0]
        generic = any(isinstance(n, ast.Attribute) and n.attr == "__dict__" and isinstance(n.value, ast.Name) and n.value.id == var for n in f.own_nodes())
        has_chain = any(isinstance(n, ast.If) and emit._isinstance_classes(n.test, var) for n in f.own_nodes())
        # traversals that delegate the generic walk to an enumerator still special-case classes themselves
        delegates = any(isinstance(n, ast.Call) and isinstance(n.func, ast.Attribute) and n.func.attr.endswith("children") for n in f.own_nodes())
        if has_chain and (generic or delegates):
            out.append((f, var))
    return out


# child fields that hold a *name* (not a reference) unless the node is computed: the only legitimate
# reason to skip them is `not <node>.computed`
NAME_UNLESS_COMPUTED = {("MemberExpression", "property"), ("Property", "key")}


def rule_traversal_completeness(ctx, rep, rid: str) -> None:
    rep.rule(rid, "every hand-written AST traversal used by scope/capture analysis descends into every child field (from the dataclass schema) of each node class it special-cases", floor=3)
    schema = node_schema(ctx)
    trs = _traversals(ctx)
    if len(trs) < 3:
        raise AnalysisError(f"only {len(trs)} AST traversals found in the compiler (expected >= 3)")
    for f, var in trs:
        # the chain's first If
        for n in f.own_nodes():
            if not (isinstance(n, ast.If) and emit._isinstance_classes(n.test, var)):
                continue
            classes = emit._isinstance_classes(n.test, var)
            body_txt = " ".join(norm(s) for s in n.body)
            for cls in classes:
                if cls in FUNC_CLASSES and f.name != "_collect_var_decls":
                    continue  # nested functions are analysed by a dedicated helper
                if cls == "Identifier":
                    continue
                for field, ann in child_fields(schema, cls).items():
                    key = f"{f.qual}:{cls}.{field}"
                    if (f.name, cls, field) in TRAVERSAL_EXCEPTIONS:
                        rep.ok(rid, key, {"skipped_because": TRAVERSAL_EXCEPTIONS[(f.name, cls, field)]})
                        continue
                    if not re.search(rf"\b{var}\.{field}\b", body_txt):
                        rep.bad(rid, key, f"{f.qual} special-cases {cls} but never visits {cls}.{field}: a closure written there is invisible to the capture analysis (its variables are not shared by reference)", f"{f.module.rel}:{n.lineno}")
                        continue
                    if (cls, field) in NAME_UNLESS_COMPUTED:
                        # visited conditionally: the condition must be about `.computed`, nothing else
                        cond = [norm(x.test) for s2 in n.body for x in ast.walk(s2) if isinstance(x, ast.If) and re.search(rf"\b{var}\.{field}\b", norm(x.test))]
                        if cond and not any("computed" in c for c in cond) and "computed" not in body_txt:
                            rep.bad(rid, key + ":conditional", f"{f.qual} visits {cls}.{field} only when `{cond[0]}`: a computed access such as a[i] or {{[k]: v}} whose key is a plain identifier is skipped, so a variable used only that way is not seen as referenced (it is captured by value instead of by reference)", f"{f.module.rel}:{n.lineno}")
                            continue
                    # element-wise manual iteration: for X in node.F: ... X.sub ...
                    elem_cls = [c for c in re.findall(r"[A-Za-z_]+", ann) if c in schema and c not in ("Node",)]
                    bad_sub = None
                    for loop in [x for s in n.body for x in ast.walk(s) if isinstance(x, ast.For)]:
                        if norm(loop.iter) == f"{var}.{field}" and isinstance(loop.target, ast.Name) and elem_cls:
                            lv = loop.target.id
                            ltxt = " ".join(norm(s) for s in loop.body)
                            direct = re.search(rf"\(\s*{lv}\s*[,)]", ltxt) is not None
                            if not direct:
                                for sub in child_fields(schema, elem_cls[0]):
                                    if not re.search(rf"\b{lv}\.{sub}\b", ltxt):
                                        bad_sub = f"{elem_cls[0]}.{sub}"
                    if bad_sub:
                        rep.bad(rid, f"{f.qual}:{bad_sub}", f"{f.qual} iterates {cls}.{field} by hand but never visits {bad_sub}", f"{f.module.rel}:{n.lineno}")
                    else:
                        rep.ok(rid, key)


def _class_table(ctx, f: Func, name: str) -> Optional[List[str]]:
    """Members of a module-level (or class-level) tuple of node classes."""
    scopes = [f.module.tree.body] + ([f.cls.node.body] if getattr(f, "cls", None) is not None else [])
    for body in scopes:
        for n in body:
            if isinstance(n, ast.Assign) and any(isinstance(t, ast.Name) and t.id == name for t in n.targets) and isinstance(n.value, (ast.Tuple, ast.List)):
                return [norm(e) for e in n.value.elts]
    return None


def rule_filtered_walks_complete(ctx, rep, rid: str) -> None:
    """A traversal whose generic branch only follows children that are instances of a class table (`isinstance(value,
    _COMPOUND_STATEMENTS)`) stops at every class the table leaves out.  For each class the generic branch walks, a
    child field whose declared type is a specific node class K (not the open `Node`) that can itself hold nodes is a
    link of the tree the walk is meant to follow: K has to be in the table or have a branch of its own, else
    everything below it is invisible (SwitchStatement.cases: List[SwitchCase] -> the statements of every case)."""
    rep.rule(rid, "a traversal that follows only children belonging to a class table has, for every class its generic branch walks, each specifically typed container child (a declared node class that can hold further nodes) in the table or in a branch of its own: the walk does not stop above statements it is meant to reach", floor=0)
    schema = node_schema(ctx)
    n = 0
    for f in ctx.tree.funcs:
        if f.module.name != "compiler" or isinstance(f.node, ast.Lambda):
            continue
        params = [p for p in f.params() if p != "self"]
        if not params:
            continue
        var = params[0]
        if not any(isinstance(x, ast.Attribute) and x.attr == "__dict__" and isinstance(x.value, ast.Name) and x.value.id == var for x in f.own_nodes()):
            continue
        # filters applied to the children in the generic branch
        tables = set()
        for c in f.own_nodes():
            # the table filters the children the generic branch follows, or decides whether the node itself is walked
            # (isinstance(node, self._COMPOUND)): either way the classes outside it are where the walk stops
            if isinstance(c, ast.Call) and norm(c.func) == "isinstance" and len(c.args) == 2 and isinstance(c.args[0], ast.Name) and (isinstance(c.args[1], ast.Name) or (isinstance(c.args[1], ast.Attribute) and norm(c.args[1].value) in ("self", "cls"))):
                tn = c.args[1].id if isinstance(c.args[1], ast.Name) else c.args[1].attr
                members = _class_table(ctx, f, tn)
                if members and all(m in schema for m in members) and len(members) >= 3:
                    tables.add(tn)
        for tname in sorted(tables):
            members = set(_class_table(ctx, f, tname))
            explicit = set()
            for x in f.own_nodes():
                if isinstance(x, ast.If):
                    for cname in emit._isinstance_classes(x.test, var):
                        explicit.add(cname)
            walked = members - explicit
            for cls in sorted(walked):
                for field, ann in schema.get(cls, {}).items():
                    toks = [t for t in re.findall(r"[A-Za-z_]+", ann) if t in schema and t not in ("Node", "SourceLocation")]
                    for k in toks:
                        if k in FUNC_CLASSES:
                            continue
                        if not child_fields(schema, k, False):
                            continue  # a leaf (Identifier): nothing below it
                        n += 1
                        key = f"{f.qual}:{tname}:{cls}.{field}->{k}"
                        if k in members or k in explicit:
                            rep.ok(rid, key)
                        else:
                            rep.bad(rid, key, f"{f.qual} follows only children that are instances of {tname}; {cls}.{field} is declared to hold {k}, which can hold further nodes ({', '.join(child_fields(schema, k, False))}) but is neither in the table nor handled by a branch: the walk stops there and nothing below a {k} is seen (a `var` in a switch case is not hoisted and is captured by value)", f"{f.module.rel}:{f.line}")
    rep.ok(rid, "filtered-walks", {"links_examined": n})


def rule_lowering_exhaustive(ctx, rep, rid: str) -> None:
    rep.rule(rid, "every AST node class the parser can construct has a branch in the statement or expression compiler, or is consumed structurally by its parent's branch", floor=40)
    schema = node_schema(ctx)
    parser = ctx.tree.mod("parser")
    constructed: Dict[str, int] = {}
    for n in ast.walk(parser.tree):
        if isinstance(n, ast.Call) and isinstance(n.func, ast.Name) and n.func.id in schema:
            constructed.setdefault(n.func.id, n.lineno)
    ea = emit.get(ctx)
    handled: Set[str] = set()
    for fn in ("_compile_statement", "_compile_expression"):
        _, chain, _ = ea.node_chain(fn)
        for classes, _, _ in chain:
            handled.update(classes)
    comp_src = ctx.tree.mod("compiler").src
    for cls, line in sorted(constructed.items()):
        key = f"parser->{cls}"
        if cls in handled or cls in ("Program", "SourceLocation"):
            rep.ok(rid, key)
            continue
        # structural: some handled parent has a field annotated with cls and the compiler reads that field
        consumers = [(p, f) for p, fs in schema.items() for f, ann in fs.items() if cls in re.findall(r"[A-Za-z_]+", ann)]
        if any(re.search(rf"\.{f}\b", comp_src) for p, f in consumers if p in handled or p == "Program"):
            rep.ok(rid, key, {"consumed_via": [f"{p}.{f}" for p, f in consumers][:3]})
        else:
            rep.bad(rid, key, f"the parser constructs {cls} (line {line}) but no compiler branch lowers it: such programs fail with a host NotImplementedError", f"{parser.rel}:{line}")


def rule_variable_resolution(ctx, rep, rid: str) -> None:
    rep.rule(rid, "every compiler site that loads or stores a named variable resolves it in the canonical order cell -> local -> free -> global (declaration sites: cell -> local, global only at program level)", floor=12)
    ea = emit.get(ctx)
    seen: Dict[str, Tuple[bool, str, int]] = {}
    for fn in ("_compile_statement", "_compile_expression"):
        for br in ea.run_chain(fn):
            for e in br.ends:
                if e.raised:
                    continue
                for ev in e.events:
                    if ev[0] != "varemit":
                        continue
                    op, line, status = ev[1], ev[2], ev[3]
                    kind = op.split("_", 1)[1] if op != "TYPEOF_NAME" else "NAME"
                    need: List[str] = []
                    decl_site = "in_function" in status
                    if kind == "LOCAL":
                        need = ["cell"]
                    elif kind == "CLOSURE":
                        need = ["cell", "local"]
                    elif kind == "NAME":
                        need = [] if (decl_site and status.get("in_function") is False) else ["cell", "local", "free"]
                    missing = [k for k in need if status.get(k) is not False]
                    key = f"{fn}:{br.cls}:{op}:{'decl' if decl_site else 'ref'}"
                    ok = not missing
                    msg = ""
                    if not ok:
                        msg = f"{br.cls}: {op} is emitted on a path that has not ruled out a {'/'.join(missing)} variable of that name ({'declaration' if decl_site else 'reference'} site): a captured or outer variable is read/written through the wrong storage"
                    prev = seen.get(key)
                    if prev is None or (prev[0] and not ok):
                        seen[key] = (ok, msg, line)
    for key, (ok, msg, line) in sorted(seen.items()):
        if ok:
            rep.ok(rid, key)
        else:
            rep.bad(rid, key, msg, f"{ea.comp.module.rel}:{line}")


def rule_operator_used(ctx, rep, rid: str) -> None:
    """C06-R2: every assignment/update target form consults node.operator (and node.prefix)."""
    rep.rule(rid, "within the assignment and update lowering, every target-form sub-branch reads node.operator (update: also node.prefix): no form may ignore which operator was written", floor=4)
    ea = emit.get(ctx)
    _, chain, _ = ea.node_chain("_compile_expression")
    for classes, body, line in chain:
        for cls, needs in (("AssignmentExpression", ["node.operator"]), ("UpdateExpression", ["node.operator", "node.prefix"])):
            if cls not in classes:
                continue
            for s in body:
                node = s
                while isinstance(node, ast.If):
                    tgt = norm(node.test)
                    txt = " ".join(norm(x) for x in node.body)
                    key = f"_compile_expression:{cls}:{short(node.test, 50)}"
                    if "isinstance(node." in tgt:
                        miss = [n for n in needs if n not in txt]
                        if miss:
                            rep.bad(rid, key, f"{cls} lowering for targets matching `{tgt}` never reads {', '.join(miss)}: every operator is compiled as if it were plain assignment", f"{ea.comp.module.rel}:{node.lineno}")
                        else:
                            rep.ok(rid, key)
                    node = node.orelse[0] if len(node.orelse) == 1 and isinstance(node.orelse[0], ast.If) else None


# ---- memo tables are keyed by everything the cached value depends on --------------------------------------
def _memo_sites(f):
    """(cache expr, key expr, compute call) for `v = C.get(K) ; if v is None: v = g(..); C[K] = v` and
    `if K not in C: C[K] = g(..)`."""
    out = []
    for n in f.own_nodes():
        if isinstance(n, ast.If):
            # if v is None: v = g(...); C[K] = v
            t = n.test
            if isinstance(t, ast.Compare) and isinstance(t.ops[0], ast.Is) and isinstance(t.left, ast.Name) and isinstance(t.comparators[0], ast.Constant) and t.comparators[0].value is None:
                v = t.left.id
                gets = [a for a in f.own_nodes() if isinstance(a, ast.Assign) and any(isinstance(x, ast.Name) and x.id == v for x in a.targets) and isinstance(a.value, ast.Call) and isinstance(a.value.func, ast.Attribute) and a.value.func.attr == "get" and a.lineno < n.lineno]
                comp = [a for a in n.body if isinstance(a, ast.Assign) and any(isinstance(x, ast.Name) and x.id == v for x in a.targets) and isinstance(a.value, ast.Call)]
                store = [a for a in n.body if isinstance(a, ast.Assign) and any(isinstance(x, ast.Subscript) for x in a.targets) and isinstance(a.value, ast.Name) and a.value.id == v]
                if gets and comp and store:
                    g = gets[-1].value
                    out.append((g.func.value, g.args[0] if g.args else None, comp[0].value, n))
            # if K not in C: C[K] = g(...)
            if isinstance(t, ast.Compare) and isinstance(t.ops[0], ast.NotIn):
                for a in n.body:
                    if isinstance(a, ast.Assign) and isinstance(a.targets[0], ast.Subscript) and isinstance(a.value, ast.Call) and norm(a.targets[0].value) == norm(t.comparators[0]) and norm(a.targets[0].slice) == norm(t.left):
                        out.append((t.comparators[0], t.left, a.value, n))
    return out


def _param_matters(ctx, g, pname: str) -> bool:
    """Does parameter pname of g influence g's result?  Uses that merely hand it on to g itself (directly or from a
    closure of g) in the same position do not count: a parameter that is only passed along the recursion is unused."""
    from ..util import bind_args

    scopes = [g] + list(g.children.values())
    for h in scopes:
        if isinstance(h.node, ast.Lambda):
            continue
        if h is not g and pname in h.params():
            continue  # shadowed
        for u in h.own_nodes():
            if not (isinstance(u, ast.Name) and u.id == pname and isinstance(u.ctx, ast.Load)):
                continue
            par = getattr(u, "_parent", None)
            if isinstance(par, ast.Call) and u in par.args:
                cs = ctx.cg.site_of_call.get(id(par))
                if cs is not None and cs.kind == "resolved" and cs.targets and all(t is g for t in cs.targets):
                    if bind_args(par, g).get(pname) is u:
                        continue
            return True
    return False


def rule_memo_keys(ctx, rep, rid: str, modules=("compiler", "parser", "vm", "context", "values", "regex.compiler", "regex.parser")) -> None:
    """A cached result may be reused only for the arguments it was computed from: every argument of the computation
    that its result depends on has to be part of the cache key."""
    rep.rule(rid, "every memo table is keyed by all arguments the cached computation depends on: an argument that the computing function reads but the key leaves out makes the first caller's answer the answer for everyone", floor=1)
    ctl = ast.parse("def f(self, node, scope):\n    used = self._memo.get(id(node))\n    if used is None:\n        used = self._collect(node, scope)\n        self._memo[id(node)] = used\n    return used\n")

    class _F:
        def __init__(self, n):
            self.node = n

        def own_nodes(self):
            return list(ast.walk(self.node))

    if len(_memo_sites(_F(ctl.body[0]))) != 1:
        raise AnalysisError("positive control failed: memo pattern detector")
    n = 0
    for f in ctx.tree.funcs:
        if isinstance(f.node, ast.Lambda) or not f.module.name.startswith(tuple(modules)):
            continue
        for cache, keyexpr, call, at in _memo_sites(f):
            n += 1
            key = f"{f.qual}:memo:{short(cache, 30)}"
            key_names = {x.id for x in ast.walk(keyexpr) if isinstance(x, ast.Name)} if keyexpr is not None else set()
            # a table that lives on one of the arguments (obj._bound[...]) is keyed by that argument as well
            key_names |= {x.id for x in ast.walk(cache) if isinstance(x, ast.Name)} - {"self"}
            cs = ctx.cg.site_of_call.get(id(call))
            tgt = cs.targets[0] if cs is not None and cs.kind == "resolved" and cs.targets else None
            missing = []
            from ..util import bind_args

            if tgt is not None and not isinstance(tgt.node, ast.Lambda):
                for pname, a in bind_args(call, tgt).items():
                    if a is None or pname == "self":
                        continue
                    names = {x.id for x in ast.walk(a) if isinstance(x, ast.Name)} - {"self"}
                    if names and not (names <= key_names):
                        # does the computation read this parameter at all?
                        if _param_matters(ctx, tgt, pname):
                            missing.append((pname, norm(a)))
            else:
                for a in call.args:
                    names = {x.id for x in ast.walk(a) if isinstance(x, ast.Name)} - {"self"}
                    if names and not (names <= key_names):
                        missing.append(("?", norm(a)))
            if missing:
                rep.bad(rid, key, f"{f.qual} caches {short(call, 40)} under the key {short(keyexpr, 30) if keyexpr is not None else '?'}, but the computation also depends on {', '.join(m[1] for m in missing)}: the value computed for the first caller is handed to callers with a different {missing[0][1]}", f"{f.module.rel}:{at.lineno}")
            else:
                rep.ok(rid, key)
    rep.ok(rid, "memo-tables", {"examined": n})


# ---- the constant pool identifies values with the host's == ---------------------------------------------
def rule_constant_pool_identity(ctx, rep, rid: str) -> None:
    """The constant pool hands out one slot per value, found with the host's `in` / `.index` (==).  For the host
    0 == -0.0 and 1 == True == 1.0, which ECMAScript keeps apart (sign of zero, boolean vs number).  Either the
    pool compares type and sign as well, or no value a caller adds can be a negative zero or a boolean: literal
    tokens carry no sign, so the danger is every COMPUTED constant (folded negation or arithmetic)."""
    rep.rule(rid, "the constant pool either compares type and sign of zero when it looks for an existing slot, or every value the compiler adds to it is a name, a string/number literal's value, a regex (pattern, flags) pair or a compiled function: a constant computed at compile time (folded negation or arithmetic, a boolean) could be a negative zero or True and would share the slot of 0 or 1", floor=1)
    comp = ctx.tree.class_named("Compiler")
    pools = []
    for f in comp.all_methods:
        if isinstance(f.node, ast.Lambda):
            continue
        appends = [c for c in f.own_nodes() if isinstance(c, ast.Call) and isinstance(c.func, ast.Attribute) and c.func.attr == "append" and norm(c.func.value) == "self.constants"]
        looks = [c for c in f.own_nodes() if (isinstance(c, ast.Compare) and any(isinstance(o, (ast.In, ast.NotIn)) for o in c.ops) and norm(c.comparators[0]) == "self.constants") or (isinstance(c, ast.Call) and isinstance(c.func, ast.Attribute) and c.func.attr == "index" and norm(c.func.value) == "self.constants") or (isinstance(c, (ast.For, ast.comprehension)) and "self.constants" in norm(c.iter))]
        if appends and looks:
            pools.append(f)
    if not pools:
        # no deduplication by equality at all: nothing to identify
        if not any(isinstance(c, ast.Call) and isinstance(c.func, ast.Attribute) and c.func.attr == "append" and norm(c.func.value) == "self.constants" for f in comp.all_methods if not isinstance(f.node, ast.Lambda) for c in f.own_nodes()):
            raise AnalysisError("no function appends to self.constants (anchor vanished)")
        rep.ok(rid, "constant-pool:no-equality-lookup", {"note": "constants are not looked up by equality"})
        return
    for pf in pools:
        src = " ".join(norm(s) for s in pf.node.body)
        typed = "type(" in src and any(t in src for t in ("copysign", "repr(", "is_negative_zero", "math.atan2"))
        if typed:
            rep.ok(rid, f"{pf.qual}:lookup-compares-type-and-sign")
            continue
        # every caller (transitively through wrappers that pass a parameter on)
        wrappers = {pf.name}
        changed = True
        while changed:
            changed = False
            for f in comp.all_methods:
                if isinstance(f.node, ast.Lambda) or f.name in wrappers:
                    continue
                rets = [r for r in f.own_nodes() if isinstance(r, ast.Return) and isinstance(r.value, ast.Call) and isinstance(r.value.func, ast.Attribute) and r.value.func.attr in wrappers and len(r.value.args) == 1 and isinstance(r.value.args[0], ast.Name) and r.value.args[0].id in f.params()]
                if rets and len(f.node.body) <= 3:
                    wrappers.add(f.name)
                    changed = True
        n = 0
        for f in ctx.tree.funcs:
            if f.module.name != "compiler" or isinstance(f.node, ast.Lambda) or f.name in wrappers:
                continue
            for c in f.own_nodes():
                if not (isinstance(c, ast.Call) and isinstance(c.func, ast.Attribute) and c.func.attr in wrappers and norm(c.func.value) == "self" and len(c.args) == 1):
                    continue
                n += 1
                a = c.args[0]
                why = _computed_constant(a, c, f)
                key = f"{f.qual}:{pf.name}({norm(a)[:40]})"
                if why is None:
                    rep.ok(rid, key)
                else:
                    rep.bad(rid, key, f"{f.qual} adds {why} to the constant pool, which looks for an existing slot with the host's == ({pf.qual}): a negative zero shares the slot of 0 (and True that of 1), so `-0` loads +0 once the function also mentions 0, or the other way round depending on which came first", f"{f.module.rel}:{c.lineno}")
        if n < 5:
            raise AnalysisError(f"{rid}: only {n} constant-pool additions found")


def _computed_constant(a: ast.AST, at: ast.AST, f: Func) -> Optional[str]:
    """A description when the value `a` is computed at compile time (not a token's own value, a name or a function)."""
    def outer(e: ast.AST):
        # the expression's own operators: what is passed INTO a call does not make the call's result computed
        yield e
        if isinstance(e, ast.Call):
            return
        for ch in ast.iter_child_nodes(e):
            yield from outer(ch)

    def computed(e: ast.AST) -> Optional[str]:
        for x in outer(e):
            if isinstance(x, ast.UnaryOp) and isinstance(x.op, ast.USub):
                return f"the negated value `{norm(e)[:40]}`"
            if isinstance(x, ast.BinOp) and isinstance(x.op, (ast.Add, ast.Sub, ast.Mult, ast.Div, ast.Mod, ast.Pow, ast.FloorDiv)) and not (isinstance(x.left, ast.Constant) and isinstance(x.left.value, str)):
                return f"the computed value `{norm(e)[:40]}`"
            if isinstance(x, ast.Constant) and isinstance(x.value, bool):
                return f"the boolean `{norm(e)[:40]}`"
            if isinstance(x, ast.Call) and norm(x.func) in ("float", "int", "bool", "math.copysign", "operator.neg"):
                return f"the converted value `{norm(e)[:40]}`"
        return None

    if isinstance(a, ast.Name):
        # every assignment of that local in the function
        for s in f.own_nodes():
            if isinstance(s, ast.Assign) and any(isinstance(t, ast.Name) and t.id == a.id for t in s.targets):
                w = computed(s.value)
                if w:
                    return w + f" (assigned to `{a.id}` at line {s.lineno})"
            if isinstance(s, ast.AugAssign) and isinstance(s.target, ast.Name) and s.target.id == a.id:
                return f"the computed value `{norm(s)[:40]}`"
        return None
    return computed(a)


# ---- a fact recorded by one name resolver is recorded whichever resolver answers first ------------------------
def _name_resolvers(comp) -> Dict[str, Tuple[Func, str, str]]:
    """Compiler methods that look a name up in one of the compiler's tables and return its index:
    `if name in self.T: return self.T.index(name)`.  method name -> (function, parameter, table)."""
    out: Dict[str, Tuple[Func, str, str]] = {}
    for m in comp.methods.values():
        if isinstance(m.node, ast.Lambda):
            continue
        ps = [p for p in m.params() if p != "self"]
        if len(ps) != 1:
            continue
        p = ps[0]
        if any(isinstance(c, ast.Call) and isinstance(c.func, ast.Attribute) and c.func.attr in ("append", "add", "insert", "extend") for c in m.own_nodes()):
            continue  # registers the name when it is missing: not a pure look-up
        for r in m.own_nodes():
            if isinstance(r, ast.Return) and isinstance(r.value, ast.Call) and isinstance(r.value.func, ast.Attribute) and r.value.func.attr == "index" and r.value.args and norm(r.value.args[0]) == p and norm(r.value.func.value).startswith("self."):
                out[m.name] = (m, p, norm(r.value.func.value))
    return out


def rule_resolver_side_effects(ctx, rep, rid: str) -> None:
    """The compiler resolves an identifier by asking its tables in turn (cell variable? local? free variable?) and
    takes the first answer.  A fact that one of these look-ups records for a particular name (`arguments` was
    mentioned: build the object at run time) is lost whenever an earlier look-up answers for that name, unless that
    one records it as well."""
    rep.rule(rid, "when one of the compiler's name look-ups records a fact about a particular name (an assignment to compiler state under `name == <literal>`), no other look-up of the same family is asked before it at any resolution site - or that one records the same fact: otherwise the fact is missing exactly for the names the earlier table holds (a captured `arguments`)", floor=0)
    comp = ctx.tree.class_named("Compiler")
    res = _name_resolvers(comp)
    if len(res) < 2:
        raise AnalysisError(f"{rid}: the compiler's name look-ups were not recognised ({sorted(res)})")
    # positive control: the shape of a keyed side effect
    ctl = ast.parse("def g(self, name):\n    if name in self.locals:\n        if name == 'arguments':\n            self._uses = True\n        return self.locals.index(name)\n").body[0]
    if not _keyed_effects_of(ctl, "name"):
        raise AnalysisError(f"{rid}: positive control failed")
    n = 0
    for rname, (rf, p, table) in sorted(res.items()):
        for const, attr, line in _keyed_effects_of(rf.node, p):
            n += 1
            key = f"{rf.qual}:{attr}@{const!r}"
            skipping = []
            for m in comp.methods.values():
                if isinstance(m.node, ast.Lambda):
                    continue
                calls = [(c.lineno, c.func.attr, norm(c.args[0])) for c in m.own_nodes() if isinstance(c, ast.Call) and isinstance(c.func, ast.Attribute) and norm(c.func.value) == "self" and c.func.attr in res and len(c.args) == 1]
                for ln, who, arg in calls:
                    if who != rname:
                        continue
                    for ln2, who2, arg2 in calls:
                        if who2 != rname and arg2 == arg and ln2 < ln:
                            sf = res[who2][0]
                            if (const, attr) not in {(c_, a_) for c_, a_, _ in _keyed_effects_of(sf.node, res[who2][1])}:
                                skipping.append((m, ln2, who2))
            if not skipping:
                rep.ok(rid, key)
            else:
                m0, ln0, who0 = skipping[0]
                sites = len({(m.name, ln) for m, ln, _ in skipping})
                others = sorted({w for _, _, w in skipping})
                rep.bad(rid, key, f"{rf.name} records `self.{attr}` when it resolves the name {const!r}, but at {sites} resolution site(s) (first: {m0.name}, line {ln0}) {', '.join(others)} is asked first and does not record it: when {const!r} is in {res[others[0]][2]} (a variable captured by a nested function) the fact is never recorded, and what depends on it at run time is missing", f"{rf.module.rel}:{line}")
    rep.ok(rid, "name-resolvers", {"resolvers": sorted(res), "keyed_side_effects": n})


def _keyed_effects_of(fnode: ast.AST, p: str) -> List[Tuple[str, str, int]]:
    """(literal, attribute, line) for every `self.<attribute> = ...` that the function performs under `p == <literal>`."""
    out: List[Tuple[str, str, int]] = []
    for n in ast.walk(fnode):
        if not isinstance(n, ast.If):
            continue
        consts: List[str] = []
        for c in ast.walk(n.test):
            if isinstance(c, ast.Compare) and len(c.ops) == 1 and norm(c.left) == p and isinstance(c.ops[0], (ast.Eq, ast.In)):
                r = c.comparators[0]
                if isinstance(r, ast.Constant) and isinstance(r.value, str):
                    consts.append(r.value)
                elif isinstance(r, (ast.Tuple, ast.List, ast.Set)):
                    consts += [e.value for e in r.elts if isinstance(e, ast.Constant) and isinstance(e.value, str)]
        if not consts:
            continue
        for st in n.body:
            for a in ast.walk(st):
                if isinstance(a, (ast.Assign, ast.AugAssign)):
                    tg = a.targets if isinstance(a, ast.Assign) else [a.target]
                    for t in tg:
                        if isinstance(t, ast.Attribute) and norm(t.value) == "self":
                            for k in consts:
                                out.append((k, t.attr, a.lineno))
    return out


# ---- a key that is an identifier is a name only when the property is not computed ---------------------------------
def rule_computed_flag_consulted(ctx, rep, rid: str) -> None:
    """`o.k` and `o[k]`, `{k: 1}` and `{[k]: 1}` have the same child node - an Identifier - and differ only in the
    `computed` flag of the parent.  A compiler branch that turns an identifier key into a name constant must look at
    that flag, or the computed form silently means the uncomputed one."""
    rep.rule(rid, "wherever the compiler tests that the key of a property (or the property of a member access) is an Identifier in order to use its name as a constant, the same condition (or an enclosing one) consults the node's `computed` flag: {[k]: v} and o[k] take the VALUE of k", floor=1)
    from ..util import guards_of

    schema = node_schema(ctx)
    flagged = {c for c, fields in schema.items() if "computed" in fields}
    if not flagged:
        raise AnalysisError(f"{rid}: no AST node class with a `computed` field found")
    comp = ctx.tree.class_named("Compiler")
    n = 0
    for m in comp.methods.values():
        if isinstance(m.node, ast.Lambda):
            continue
        for t in m.own_nodes():
            if not (isinstance(t, ast.Call) and norm(t.func) == "isinstance" and len(t.args) == 2 and norm(t.args[1]) == "Identifier" and isinstance(t.args[0], ast.Attribute) and t.args[0].attr in ("key", "property")):
                continue
            base = norm(t.args[0].value)
            # is the name then used as a constant?  (`.name` of the same key read in the guarded code)
            top = t
            while isinstance(getattr(top, "_parent", None), (ast.BoolOp, ast.UnaryOp)):
                top = top._parent
            holder = getattr(top, "_parent", None)
            if not isinstance(holder, (ast.If, ast.IfExp)) or holder.test is not top:
                continue
            body = holder.body if isinstance(holder.body, list) else [holder.body]
            uses_name = any(isinstance(x, ast.Attribute) and x.attr == "name" and norm(x.value) == norm(t.args[0]) for b in body for x in ast.walk(b))
            if not uses_name:
                continue
            n += 1
            key = f"{m.qual}:{norm(t.args[0])}@{t.lineno}"
            want = f"{base}.computed"
            consulted = want in norm(top) or any(want in norm(g) for g, _ in guards_of(holder, m.node))
            # an earlier `if <base>.computed: ... return/continue` or else-branch of a computed test
            if not consulted:
                p_ = getattr(holder, "_parent", None)
                while p_ is not None and p_ is not m.node:
                    if isinstance(p_, ast.If) and want in norm(p_.test):
                        consulted = True
                    p_ = getattr(p_, "_parent", None)
            if consulted:
                rep.ok(rid, key)
            else:
                rep.bad(rid, key, f"{m.qual} takes `{norm(t.args[0])}.name` as the property name whenever the key is an Identifier, without looking at `{want}`: the computed form (`{{[k]: v}}`, `o[k]`) then names the property 'k' instead of the value of k", f"{m.module.rel}:{t.lineno}")
    if n < 1:
        raise AnalysisError(f"{rid}: no identifier-key decision found in the compiler")


# ---- function declarations take effect on entry to their scope -------------------------------------------


def _is_decl_test(e: ast.AST, var: Optional[str] = None) -> Optional[bool]:
    """True for `isinstance(v, FunctionDeclaration)`, False for its negation, None otherwise."""
    if isinstance(e, ast.UnaryOp) and isinstance(e.op, ast.Not):
        r = _is_decl_test(e.operand, var)
        return None if r is None else not r
    if isinstance(e, ast.Call) and norm(e.func) == "isinstance" and len(e.args) == 2 and norm(e.args[1]) == "FunctionDeclaration" and isinstance(e.args[0], ast.Name) and (var is None or e.args[0].id == var):
        return True
    return None


def _filtered_part(e: ast.AST, assigns: Dict[str, ast.AST]) -> Optional[Tuple[bool, str]]:
    """(keeps declarations?, source list) for `[s for s in L if <decl test>]` (directly or through one local)."""
    if isinstance(e, ast.Name) and e.id in assigns:
        e = assigns[e.id]
    if isinstance(e, ast.ListComp) and len(e.generators) == 1 and isinstance(e.elt, ast.Name) and isinstance(e.generators[0].target, ast.Name) and e.elt.id == e.generators[0].target.id and len(e.generators[0].ifs) == 1:
        r = _is_decl_test(e.generators[0].ifs[0], e.elt.id)
        if r is not None:
            return r, norm(e.generators[0].iter)
    return None


def _declarations_first(h: Func) -> Optional[str]:
    """None when every list the helper returns is its parameter with the function declarations moved to the front
    (stable otherwise); else the reason."""
    params = [p for p in h.params() if p != "self"]
    if len(params) != 1:
        return f"{h.name} takes {len(params)} parameters"
    p = params[0]
    assigns = {t.id: n.value for n in h.own_nodes() if isinstance(n, ast.Assign) and len(n.targets) == 1 for t in n.targets if isinstance(t, ast.Name)}
    rets = [n for n in h.own_nodes() if isinstance(n, ast.Return)]
    if not rets:
        return f"{h.name} returns nothing"
    ordered = False
    for r in rets:
        v = r.value
        if isinstance(v, ast.Name) and v.id == p:
            # the list as it is: only where there is nothing to move
            par = getattr(r, "_parent", None)
            ok = False
            if isinstance(par, ast.If) and isinstance(par.test, ast.UnaryOp) and isinstance(par.test.op, ast.Not):
                part = _filtered_part(par.test.operand, assigns)
                ok = part is not None and part[0] and part[1] == p
            if not ok:
                return f"line {r.lineno} returns `{p}` in source order although it may hold declarations"
            continue
        if isinstance(v, ast.BinOp) and isinstance(v.op, ast.Add):
            a, b = _filtered_part(v.left, assigns), _filtered_part(v.right, assigns)
            if a and b and a[1] == p and b[1] == p and a[0] and not b[0]:
                ordered = True
                continue
            return f"line {r.lineno} returns `{short(v, 50)}`, which is not `declarations + the other statements` of `{p}`"
        if isinstance(v, ast.Call) and norm(v.func) == "sorted" and v.args and norm(v.args[0]) == p:
            k = [kw.value for kw in v.keywords if kw.arg == "key"]
            if k and isinstance(k[0], ast.Lambda) and _is_decl_test(k[0].body) is False and not any(kw.arg == "reverse" for kw in v.keywords):
                ordered = True
                continue
        return f"line {r.lineno} returns `{short(v, 50)}`"
    return None if ordered else f"{h.name} never returns a reordered list"


def rule_function_declarations_first(ctx, rep, rid: str) -> None:
    """A function declaration is initialised when its scope is entered, so code above it can call it (helpers declared
    at the bottom, mutual recursion).  This compiler creates the closure where the declaration stands; every
    place that compiles the statement list of a scope (program, function body, arrow block body) therefore has to
    take the declarations first."""
    rep.rule(rid, "every compiler entry point that builds a code object compiles the statement list of that scope with its function declarations first (through a helper that returns `declarations + the other statements`, or a stable sort on `not isinstance(s, FunctionDeclaration)`), never in plain source order", floor=3)
    comp = ctx.tree.class_named("Compiler")
    n = 0
    seen: Set[str] = set()
    for m in comp.methods.values():
        if isinstance(m.node, ast.Lambda):
            continue
        if not any(isinstance(c, ast.Call) and norm(c.func) == "CompiledFunction" for c in m.own_nodes()):
            continue
        assigns: Dict[str, List[ast.AST]] = {}
        for a in m.own_nodes():
            if isinstance(a, ast.Assign) and len(a.targets) == 1 and isinstance(a.targets[0], ast.Name):
                assigns.setdefault(a.targets[0].id, []).append(a.value)
        # statement lists: what a loop that compiles statements iterates over, and what `x[-1]` of a compiled last statement indexes
        lists: List[Tuple[ast.AST, int]] = []
        for st in m.own_nodes():
            if isinstance(st, ast.For) and isinstance(st.target, ast.Name) and any(isinstance(c, ast.Call) and isinstance(c.func, ast.Attribute) and c.func.attr.startswith("_compile_statement") and c.args and norm(c.args[0]) == st.target.id for b in st.body for c in ast.walk(b)):
                lists.append((st.iter, st.lineno))
            if isinstance(st, ast.Call) and isinstance(st.func, ast.Attribute) and st.func.attr.startswith("_compile_statement") and st.args and isinstance(st.args[0], ast.Subscript):
                lists.append((st.args[0].value, st.lineno))
        for e, line in lists:
            # strip slices and `X if cond else []`
            roots: List[ast.AST] = []

            def strip(x):
                if isinstance(x, ast.Subscript):
                    strip(x.value)
                elif isinstance(x, ast.IfExp):
                    strip(x.body)
                    strip(x.orelse)
                elif isinstance(x, ast.List) and not x.elts:
                    pass
                elif isinstance(x, ast.Name) and x.id in assigns:
                    for v in assigns[x.id]:
                        strip(v)
                else:
                    roots.append(x)

            strip(e)
            for r in roots:
                key = f"{m.qual}:{norm(r)}:declarations-first"
                if key in seen:
                    continue
                seen.add(key)
                n += 1
                loc = f"{m.module.rel}:{line}"
                why = None
                if isinstance(r, ast.Call) and isinstance(r.func, ast.Attribute) and norm(r.func.value) == "self":
                    h = ctx.tree.find_method(comp, r.func.attr)
                    why = f"`{norm(r.func)}` is not a method of the compiler" if h is None else _declarations_first(h)
                    if why is not None and h is not None:
                        why = f"{h.qual}: {why}"
                elif isinstance(r, ast.Call) and norm(r.func) == "sorted":
                    k = [kw.value for kw in r.keywords if kw.arg == "key"]
                    if not (k and isinstance(k[0], ast.Lambda) and _is_decl_test(k[0].body) is False):
                        why = "sorted on another key"
                else:
                    why = f"`{norm(r)}` is the statement list as the parser delivered it"
                if why is None:
                    rep.ok(rid, key, {"at": loc})
                else:
                    rep.bad(rid, key, f"{m.qual} builds a code object and compiles its statements from `{short(e, 50)}` in source order ({why}): a function declared below its first use (`h(); function h(){{}}`, helpers at the bottom of a function, mutual recursion) is still undefined when it is called", loc)
    if n < 3:
        raise AnalysisError(f"{rid}: fewer than three scope bodies found in the compiler (program, function, arrow)")


# ---- an optional child of a syntax node is tested before it is looked into -----------------------------


def rule_optional_children_tested(ctx, rep, rid: str, modules=("compiler", "parser")) -> None:
    """The node classes declare which children may be absent (`param: Optional[Identifier]`).  A reader that knows the
    class of the node it holds (an `isinstance(node, C)` branch) and reaches INTO such a child - `node.param.name`,
    `for x in node.finalizer.body` - without a test of the child raises AttributeError on a well-formed program the
    moment the parser leaves the child out; the host exception passes through eval."""
    rep.rule(rid, "wherever the compiler or parser holds a node whose class is known from an enclosing isinstance test and reads an attribute of a child that the class declares Optional[..], a test of that child (truthiness, `is not None`, or an earlier exit on `is None`) dominates the read", floor=3)
    from ..util import atoms, known_conditions

    schema = node_schema(ctx)
    optional = {(c, f) for c, fields in schema.items() for f, ann in fields.items() if ann.startswith("Optional[")}
    if len(optional) < 5:
        raise AnalysisError(f"{rid}: fewer than five Optional[..] fields declared in ast_nodes ({len(optional)})")
    n = 0
    for f in ctx.tree.funcs:
        if isinstance(f.node, ast.Lambda) or f.module.name not in modules:
            continue
        for x in f.own_nodes():
            # X.child.<attr>  (read into the child)
            if not (isinstance(x, ast.Attribute) and isinstance(x.value, ast.Attribute)):
                continue
            child = x.value
            base = norm(child.value)
            conds = [(norm(a), p, a) for t, pol in known_conditions(x, f.node) for a, p in atoms(t, pol)]
            classes: Set[str] = set()
            for text, pol, a in conds:
                if pol and isinstance(a, ast.Call) and norm(a.func) == "isinstance" and len(a.args) == 2 and norm(a.args[0]) == base:
                    c = a.args[1]
                    classes |= {norm(e) for e in (c.elts if isinstance(c, ast.Tuple) else [c])}
            hit = sorted(c for c in classes if (c, child.attr) in optional)
            if not hit:
                continue
            n += 1
            want = norm(child)
            tested = any((text == want and pol) or (text == f"{want} is not None" and pol) or (text == f"{want} is None" and not pol) or (text == f"not {want}" and not pol) for text, pol, a in conds)
            # `X.child.attr if X.child else ..` and `X.child and X.child.attr`
            p = getattr(x, "_parent", None)
            q = x
            while not tested and p is not None and not isinstance(p, ast.stmt):
                if isinstance(p, ast.BoolOp) and isinstance(p.op, ast.And):
                    i = [k for k, v in enumerate(p.values) if v is q or any(w is q for w in ast.walk(v))]
                    if i and any(norm(v) in (want, f"{want} is not None") for v in p.values[: i[0]]):
                        tested = True
                q, p = p, getattr(p, "_parent", None)
            key = f"{f.qual}:{want}.{x.attr}"
            if tested:
                rep.ok(rid, key)
            else:
                rep.bad(rid, key, f"{f.qual} reads `{norm(x)}` where `{base}` is a {'/'.join(hit)}, whose `{child.attr}` is declared {schema[hit[0]][child.attr]}: no test of `{want}` dominates the read, so a node without that child (which the parser may build) raises AttributeError - a host exception that passes through eval instead of a JSError", f"{f.module.rel}:{x.lineno}")
    if n < 3:
        raise AnalysisError(f"{rid}: fewer than three reads into optional children found ({n})")


# ---- `var x;` assigns nothing ---------------------------------------------------------------------------------


def rule_var_without_initialiser_stores_nothing(ctx, rep, rid: str) -> None:
    """`var x;` declares: it gives x no value, so a value x already has stays (`x = 5; var x;`, a `var t;` at the top of
    a loop body, a global the embedder set).  In the compiler's loop over the declarators, the path on which the
    declarator has no initialiser must therefore not reach an emitted store to the variable."""
    rep.rule(rid, "in the statement compiler's loop over the declarators of a var statement, no path on which the declarator has no initialiser reaches an unconditional `_emit(STORE_LOCAL / STORE_CELL / STORE_NAME)` (a declaration without initialiser leaves the variable as it is)", floor=1)
    comp = ctx.tree.class_named("Compiler")
    n = 0
    for m in comp.methods.values():
        if isinstance(m.node, ast.Lambda):
            continue
        for loop in m.own_nodes():
            if not (isinstance(loop, ast.For) and isinstance(loop.target, ast.Name) and isinstance(loop.iter, ast.Attribute) and loop.iter.attr == "declarations"):
                continue
            d = loop.target.id
            tests = [x for x in ast.walk(loop) if isinstance(x, ast.If) and norm(x.test) in (f"{d}.init", f"{d}.init is not None", f"{d}.init is None", f"not {d}.init")]
            emits_store = [c for c in ast.walk(loop) if isinstance(c, ast.Call) and norm(c.func) == "self._emit" and c.args and "STORE_" in norm(c.args[0])]
            if not emits_store:
                continue  # a collector, not the code generator
            n += 1
            key = f"{m.qual}:for {d} in {norm(loop.iter)}:no-initialiser"
            if not tests:
                rep.bad(rid, key, f"{m.qual} emits a store for every declarator of a var statement without asking whether it has an initialiser: `var x;` overwrites x with undefined", f"{m.module.rel}:{loop.lineno}")
                continue
            cfg = ctx.facts.cfg(m)
            bad = None
            for t in tests:
                positive = norm(t.test) in (f"{d}.init", f"{d}.init is not None")
                with_init = t.body if positive else t.orelse
                blocked = {nd.id for nd in cfg.nodes if nd.ast is not None and any(nd.ast is y or nd.stmt is y for b in with_init for y in ast.walk(b) if isinstance(y, ast.stmt))}
                tn = cfg.node_of_stmt.get(id(t))
                if tn is None:
                    continue
                within = cfg.loop_nodes.get(id(loop))
                stores = {nd.id for nd in cfg.nodes if nd.ast is not None and nd.id not in blocked and any(c is x for c in emits_store for x in ast.walk(nd.ast if not isinstance(nd.ast, (ast.If, ast.While)) else nd.ast.test))}
                p = cfg.path_avoiding(tn.id, lambda nd: nd.id in stores, blocked | {cfg.loop_head[id(loop)].id}, within, start_succ=True)
                if p is not None:
                    bad = p
            if bad is None:
                rep.ok(rid, key)
            else:
                rep.bad(rid, key, f"{m.qual}: a declarator without initialiser still reaches an emitted store (lines {[x.line for x in bad if x.line][:6]}): `x = 5; var x; x` gives undefined, a `var t;` inside a loop resets t on every trip, and a global set by the embedder is lost when a script merely declares it", f"{m.module.rel}:{bad[-1].line}")
    if n == 0:
        raise AnalysisError(f"{rid}: the code generator's loop over var declarators was not found")


# ---- the var declarations of a function body are its locals from the start ----------------------------------


def rule_declared_vars_registered_first(ctx, rep, rid: str) -> None:
    """`var` declarations are hoisted: every name declared anywhere in a function body is a local of that function from
    its first instruction on.  A function compiler that collects the declared names (for the capture analysis) but
    does not enter them into its table of locals before compiling the body resolves uses ABOVE the declaration - and
    closures created above it - against the enclosing scopes and the globals."""
    rep.rule(rid, "every function compiler that collects the var declarations of a body (`_collect_var_decls`) enters the collected names into `self.locals` in a loop that precedes the compilation of the body", floor=2)
    comp = ctx.tree.class_named("Compiler")
    n = 0
    for m in comp.methods.values():
        if isinstance(m.node, ast.Lambda) or m.name == "_collect_var_decls":
            continue
        calls = [c for c in m.own_nodes() if isinstance(c, ast.Call) and norm(c.func) == "self._collect_var_decls" and len(c.args) >= 2 and isinstance(c.args[1], ast.Name)]
        if not calls or not any(isinstance(c, ast.Call) and norm(c.func) == "CompiledFunction" for c in m.own_nodes()):
            continue
        n += 1
        setname = calls[0].args[1].id
        key = f"{m.qual}:{setname}:registered-before-body"
        loops = [l for l in m.own_nodes() if isinstance(l, ast.For) and any(isinstance(x, ast.Name) and x.id == setname for x in ast.walk(l.iter)) and any(isinstance(c, ast.Call) and norm(c.func) in ("self.locals.append", "self._add_local") for b in l.body for c in ast.walk(b))]
        # or in one step: self.locals.extend(<expression over the collected set>)
        loops += [c for c in m.own_nodes() if isinstance(c, ast.Call) and norm(c.func) in ("self.locals.extend", "self.locals.__iadd__") and any(isinstance(x, ast.Name) and x.id == setname for a in c.args for x in ast.walk(a))]
        loops += [a for a in m.own_nodes() if isinstance(a, ast.AugAssign) and norm(a.target) == "self.locals" and any(isinstance(x, ast.Name) and x.id == setname for x in ast.walk(a.value))]
        body_calls = [c.lineno for c in m.own_nodes() if isinstance(c, ast.Call) and norm(c.func) in ("self._compile_statement", "self._compile_expression")]
        if loops and body_calls and min(l.lineno for l in loops) < min(body_calls):
            rep.ok(rid, key)
        else:
            rep.bad(rid, key, f"{m.qual} collects the var declarations of the body into `{setname}` but does not enter them into self.locals before compiling the body: a use above the declaration resolves to a global (`(() => {{ x = 1; var x; }})()` creates a global x) and a closure created above it cannot see the variable (`var g = function(){{ return x }}; var x = 5; g()` inside the function throws ReferenceError)", m.loc)
    if n < 2:
        raise AnalysisError(f"{rid}: fewer than two function compilers collect var declarations ({n})")
