"""Regex engine rules (C09-R1..R3, C10-R1..R4, C20-R1/R2)."""

from __future__ import annotations

import ast
from typing import Dict, List, Optional, Set, Tuple

from ..cfg import node_calls, path_str
from ..core import AnalysisError, Func, const_str, norm, opcode_member, short, walk_no_nested
from ..facts import find_chains
from ..util import guards_of, raises_in, try_handlers_enclosing

OPENUM = ("Op", "RegexOpCode")


def emitted(ctx) -> Dict[str, Set[int]]:
    """regex opcode -> set of argument counts with which the regex compiler emits it."""
    m = ctx.tree.mod("regex.compiler")
    out: Dict[str, Set[int]] = {}
    for n in ast.walk(m.tree):
        if isinstance(n, ast.Call) and isinstance(n.func, ast.Attribute) and norm(n.func.value) == "self":
            if n.func.attr == "_emit" and n.args:
                op = opcode_member(n.args[0], OPENUM)
                if op:
                    out.setdefault(op, set()).add(len(n.args) - 1)
                elif isinstance(n.args[0], ast.Name) or isinstance(n.args[0], ast.IfExp):
                    for x in ast.walk(n.args[0]):
                        o = opcode_member(x, OPENUM)
                        if o:
                            out.setdefault(o, set()).add(len(n.args) - 1)
            if n.func.attr == "_patch" and len(n.args) >= 2:
                op = opcode_member(n.args[1], OPENUM)
                if op:
                    out.setdefault(op, set()).add(len(n.args) - 2)
    # opcodes chosen through a local variable: `op = Op.X if ... else Op.Y` / dict tables
    for f in ctx.tree.funcs:
        if f.module is not m:
            continue
        varops: Dict[str, Set[str]] = {}
        for n in f.own_nodes():
            if isinstance(n, ast.Assign) and isinstance(n.targets[0], ast.Name):
                ops = {opcode_member(x, OPENUM) for x in ast.walk(n.value) if opcode_member(x, OPENUM)}
                if ops:
                    varops.setdefault(n.targets[0].id, set()).update(ops)
        for n in f.own_nodes():
            if isinstance(n, ast.Call) and norm(n.func) == "self._emit" and n.args:
                a0 = n.args[0]
                names = [a0.id] if isinstance(a0, ast.Name) else ([a0.value.id] if isinstance(a0, ast.Subscript) and isinstance(a0.value, ast.Name) else [])
                for nm in names:
                    for o in varops.get(nm, ()):
                        out.setdefault(o, set()).add(len(n.args) - 1)
    if len(out) < 15:
        raise AnalysisError(f"only {len(out)} regex opcodes found in the regex compiler")
    return out


def handled_by_loop(ctx) -> List[Tuple[Func, Set[str], bool, int]]:
    """(matcher-loop function, opcodes with a branch, has catch-all that skips?, line)."""
    out = []
    for f, loop in ctx.facts.matcher_loops():
        ops: Set[str] = set()
        catch_all = False
        for n in ast.walk(loop):
            if isinstance(n, ast.If) and isinstance(n.test, ast.Compare) and isinstance(n.test.left, ast.Name) and n.test.left.id == "opcode":
                o = opcode_member(n.test.comparators[0], OPENUM)
                if o:
                    ops.add(o)
                elif isinstance(n.test.comparators[0], (ast.Tuple, ast.List)):
                    ops.update(x for x in (opcode_member(e, OPENUM) for e in n.test.comparators[0].elts) if x)
                # the final else of the chain
                if n.orelse and not (len(n.orelse) == 1 and isinstance(n.orelse[0], ast.If)):
                    if not any(isinstance(s, ast.Raise) for s in n.orelse):
                        catch_all = True
        out.append((f, ops, catch_all, loop.lineno))
    return out


def emitted_subset_of_main(ctx) -> bool:
    em = set(emitted(ctx))
    loops = handled_by_loop(ctx)
    main = max(loops, key=lambda x: len(x[1]))
    return em <= main[1]


def rule_sibling_interpreters(ctx, rep, rid: str) -> None:
    rep.rule(rid, "every matcher loop (the main one and any sub-matcher for lookahead/lookbehind bodies) has a branch for every opcode the regex compiler can emit, and none has a catch-all that skips instructions it does not interpret", floor=1)
    em = set(emitted(ctx))
    loops = handled_by_loop(ctx)
    if len(loops) < 1:
        raise AnalysisError("no matcher loop found")
    for f, ops, catch_all, line in loops:
        loc = f"{f.module.rel}:{line}"
        missing = sorted(em - ops)
        if catch_all:
            rep.bad(rid, f"{f.qual}:catch-all", f"{f.qual} ends its opcode chain with a branch that advances pc without interpreting the instruction: every unhandled opcode silently matches", loc)
        else:
            rep.ok(rid, f"{f.qual}:catch-all")
        for op in missing:
            rep.bad(rid, f"{f.qual}:{op}", f"{f.qual} has no branch for {op}, which the regex compiler emits (inside assertions it is skipped as if it matched)", loc)
        if not missing:
            rep.ok(rid, f"{f.qual}:covers-emitted", {"emitted": len(em), "handled": len(ops)})
    rep.analysed["regex_opcodes_emitted"] = sorted(em)


def rule_pipeline_exhaustive(ctx, rep, rid: str) -> None:
    rep.rule(rid, "every regex AST class has a branch in the regex compiler's dispatch and is known to the zero-width and capture-group analyses; every emitted instruction matches its OPCODE_INFO arity", floor=12)
    par = ctx.tree.mod("regex.parser")
    comp = ctx.tree.mod("regex.compiler")
    ast_classes = []
    for name, ci in par.classes.items():
        if any("dataclass" in norm(d) for d in ci.node.decorator_list):
            ast_classes.append(name)
    if len(ast_classes) < 10:
        raise AnalysisError(f"only {len(ast_classes)} regex AST classes found")
    cn = ctx.tree.method("RegexCompiler", "_compile_node")
    handled = set()
    for n in cn.own_nodes():
        if isinstance(n, ast.Call) and norm(n.func) == "isinstance" and len(n.args) == 2:
            k = n.args[1]
            handled.update([k.id] if isinstance(k, ast.Name) else [e.id for e in getattr(k, "elts", []) if isinstance(e, ast.Name)])
    for c in sorted(ast_classes):
        if c in handled:
            rep.ok(rid, f"_compile_node:{c}")
        else:
            rep.bad(rid, f"_compile_node:{c}", f"regex AST class {c} has no branch in RegexCompiler._compile_node", cn.loc)
    # parser constructs only known classes: every constructed class is a dataclass above
    # arity agreement with OPCODE_INFO
    ops = ctx.tree.mod("regex.opcodes")
    info: Dict[str, int] = {}
    for s in ops.tree.body:
        if isinstance(s, ast.Assign) and norm(s.targets[0]) == "OPCODE_INFO" and isinstance(s.value, ast.Dict):
            for k, v in zip(s.value.keys, s.value.values):
                o = opcode_member(k, OPENUM)
                if o and isinstance(v, ast.Tuple) and len(v.elts) >= 2 and isinstance(v.elts[1], ast.Constant):
                    info[o] = v.elts[1].value
    if not info:
        raise AnalysisError("OPCODE_INFO not found")
    for op, arities in sorted(emitted(ctx).items()):
        if op not in info:
            rep.bad(rid, f"OPCODE_INFO:{op}", f"{op} is emitted but has no OPCODE_INFO row", f"{ops.rel}:1")
        elif arities != {info[op]}:
            rep.bad(rid, f"OPCODE_INFO:{op}", f"{op} is emitted with {sorted(arities)} argument(s) but OPCODE_INFO documents {info[op]} (the matcher indexes instr[1..{info[op]}])", f"{comp.rel}:1")
        else:
            rep.ok(rid, f"OPCODE_INFO:{op}")


def rule_class_predicates(ctx, rep, rid: str) -> None:
    rep.rule(rid, "\\d \\w \\s \\b are decided with ECMAScript's ASCII/WhiteSpace sets, not the host's Unicode str.isdigit/isalnum/isspace", floor=1)
    n_sites = 0
    for f in ctx.tree.funcs:
        if not f.module.name.startswith("regex.vm"):
            continue
        seen = set()
        for n in f.own_nodes():
            if isinstance(n, ast.Call) and isinstance(n.func, ast.Attribute) and n.func.attr in ("isdigit", "isalnum", "isspace", "isalpha", "isnumeric", "isdecimal"):
                k = n.func.attr
                if k in seen:
                    continue
                seen.add(k)
                n_sites += 1
                rep.bad(rid, f"{f.qual}:str.{k}", f"{f.qual} classifies characters with str.{k}(), which accepts non-ASCII characters that the ECMAScript class does not", f"{f.module.rel}:{n.lineno}")
    if n_sites == 0:
        rep.ok(rid, "regex.vm:class-predicates")


# ----------------------------------------------------------------- C10 rules
def rule_regex_error_conversion(ctx, rep, rid_c: str, rid_m: str) -> None:
    rep.rule(rid_c, "every script-reachable construction of a regex converts the engine's private RegExpError into a script-catchable SyntaxError", floor=4)
    rep.rule(rid_m, "every script-reachable run of the matcher converts RegexStackOverflow into a defined result or a JSError", floor=6)
    from .exceptions import converted_classes
    from .limits import _regex_classes

    conv = converted_classes(ctx)
    facade, js = _regex_classes(ctx)
    sr = ctx.facts.script_reachable()
    t = ctx.tree

    def conv_handler(call, f, exc):
        for tr, in_body in try_handlers_enclosing(call, f.node):
            if not in_body:
                continue
            for h in tr.handlers:
                if h.type is None or exc in norm(h.type) or norm(h.type) in ("Exception",):
                    for s in h.body:
                        for r in walk_no_nested(s):
                            if isinstance(r, ast.Raise) and r.exc is not None:
                                cls = (norm(r.exc.func) if isinstance(r.exc, ast.Call) else norm(r.exc)).split(".")[-1]
                                if "JSError" in t.exc_ancestors(f.module, cls):
                                    return cls
                    if any(isinstance(s, ast.Return) for s in h.body):
                        return "<defined result>"
        return None

    for cs in ctx.cg.sites:
        if not (cs.ext and cs.ext.startswith("class:")):
            continue
        if cs.ext[6:] not in (facade.qual, js.qual):
            continue
        f = cs.func
        if id(f) not in sr or f.cls is js:
            continue
        key = f"{f.qual}:{cs.ext.split(':')[-1]}(...)"
        loc = f"{f.module.rel}:{cs.line}"
        cls = conv_handler(cs.call, f, "RegExpError")
        if cls is None and cs.ext[6:] == js.qual:
            # the wrapper class may convert inside its own constructor
            init = js.methods.get("__init__")
            if init is not None:
                for ics in ctx.cg.sites_of.get(id(init), []):
                    if ics.ext == "class:" + facade.qual:
                        cls = conv_handler(ics.call, init, "RegExpError")
        if cls is None:
            rep.bad(rid_c, key, f"{f.qual} constructs a regex from a script-supplied pattern without converting RegExpError: an invalid pattern escapes eval as a host exception that no script can catch", loc)
        elif cls not in conv or conv.get(cls) != "SyntaxError":
            rep.bad(rid_c, key, f"{f.qual} converts RegExpError into {cls}, which the run loop does not turn into a script-level SyntaxError", loc)
        else:
            rep.ok(rid_c, key)
    # matcher runs
    loops = {id(f) for f, _ in ctx.facts.matcher_loops()}
    cache: Dict[int, bool] = {}

    def reaches(fn):
        if id(fn) not in cache:
            cache[id(fn)] = any(x in loops for x in ctx.cg.reach([fn]))
        return cache[id(fn)]

    def callers_convert(fn, depth: int):
        """The class every caller of fn converts RegexStackOverflow into (None when some caller does not, or when
        fn is also handed out as a value without a converting wrapper around it)."""
        sites = [c for c in ctx.cg.sites if any(x is fn for x in c.targets) and not c.func.module.name.startswith("regex")]
        if not sites or depth == 0:
            return None
        # the function may escape as a value only as the argument of a call that resolves its parameter to it
        for g in ctx.tree.funcs:
            if g.module is not fn.module:
                continue
            for nm in g.own_nodes():
                if isinstance(nm, ast.Name) and isinstance(nm.ctx, ast.Load) and nm.id == fn.name and ctx.cg._lookup_name_func(nm.id, g) is fn and not ctx.cg._is_shadowed(nm.id, g, fn):
                    par = getattr(nm, "_parent", None)
                    if isinstance(par, ast.Call) and par.func is nm:
                        continue  # a direct call: one of the sites
                    if isinstance(par, ast.Call) and nm in par.args:
                        pcs = ctx.cg.site_of_call.get(id(par))
                        if pcs is not None and pcs.kind == "resolved" and pcs.targets and all(any(any(x is fn for x in c2.targets) for c2 in ctx.cg.sites_of.get(id(w), []) + [c3 for ch in w.children.values() for c3 in ctx.cg.sites_of.get(id(ch), [])]) for w in pcs.targets):
                            continue  # handed to a wrapper whose body (or closure) calls it: that call is one of the sites
                    return None
        out = None
        for c in sites:
            r = conv_handler(c.call, c.func, "RegexStackOverflow")
            if r is None:
                r = callers_convert(c.func, depth - 1)
            if r is None:
                return None
            out = r
        return out

    for cs in ctx.cg.sites:
        f = cs.func
        if f.module.name.startswith("regex") or cs.kind not in ("resolved", "byname"):
            continue
        tg = [x for x in cs.targets if x.module.name.startswith("regex") or (x.cls is not None and x.cls.name == "JSRegExp")]
        if not tg or not any(reaches(x) for x in tg) or all(x.name == "__init__" for x in tg):
            continue
        if f.cls is js:
            continue  # JSRegExp.exec/test are called only from the natives checked below
        key = f"{f.qual}:{short(cs.call, 50)}"
        loc = f"{f.module.rel}:{cs.line}"
        cls = conv_handler(cs.call, f, "RegexStackOverflow")
        if cls is None:
            # every caller of the enclosing function converts it (a wrapper that runs the native inside its
            # own try/except: `"exec": self._regex_limits(exec_fn)`)
            cls = callers_convert(f, 3)
        if cls is None:
            rep.bad(rid_m, key, f"{f.qual} runs the matcher without handling RegexStackOverflow: a pattern that exhausts the backtrack budget escapes eval as a host exception", loc)
        else:
            rep.ok(rid_m, key, {"converted_to": cls})


def _budgeted_steps(ctx, comp) -> Tuple[Set[int], Optional[str]]:
    """Functions of the regex compiler that charge a compile-step budget before doing anything else:
    `self.N += 1; if self.N > CONST: raise RegExpError`, plus functions that call one on every path."""
    from .limits import pollers

    base = None
    why = None
    for f in ctx.tree.funcs:
        if f.module is not comp or f.cls is None:
            continue
        body = [st for st in f.body() if not (isinstance(st, ast.Expr) and isinstance(st.value, ast.Constant))]
        if len(body) >= 2 and isinstance(body[0], ast.AugAssign) and isinstance(body[0].op, ast.Add) and isinstance(body[1], ast.If):
            ctr = norm(body[0].target)
            t = body[1].test
            if isinstance(t, ast.Compare) and len(t.ops) == 1 and isinstance(t.ops[0], (ast.Gt, ast.GtE)) and norm(t.left) == ctr and raises_in(body[1].body, "RegExpError"):
                r = t.comparators[0]
                val = r.value if isinstance(r, ast.Constant) else None
                if val is None and f.cls is not None:
                    for st in f.cls.node.body:
                        if isinstance(st, ast.Assign) and isinstance(st.targets[0], ast.Name) and st.targets[0].id == norm(r).split(".")[-1] and isinstance(st.value, ast.Constant):
                            val = st.value.value
                if isinstance(val, int) and 100 <= val <= 10 ** 7:
                    # the counter must be reset only at the start of a compilation (never inside the recursion)
                    resets = [g for g in ctx.tree.funcs if g.module is comp and g is not f and any(isinstance(n, ast.Assign) and any(norm(x) == ctr for x in n.targets) for n in g.own_nodes())]
                    if all(g.name in ("__init__", "compile") for g in resets):
                        base = f
                        why = f"{f.qual} charges {ctr} against {val} before compiling any node"
    if base is None:
        return set(), None
    return pollers(ctx, base), why


def rule_bounded_compilation(ctx, rep, rid: str) -> None:
    rep.rule(rid, "every repetition the regex compiler unrolls (range(count) over a quantifier bound) is bounded: either the count is checked against a constant (RegExpError), or every iteration passes through a compile step that charges a bounded budget (so bodies that emit nothing are bounded too)", floor=2)
    comp = ctx.tree.mod("regex.compiler")
    par = ctx.tree.mod("regex.parser")

    def has_bound(mod) -> Optional[str]:
        for f in ctx.tree.funcs:
            if f.module is not mod:
                continue
            for n in f.own_nodes():
                if isinstance(n, ast.If) and isinstance(n.test, (ast.Compare, ast.BoolOp)):
                    txt = norm(n.test)
                    if ("min_count" in txt or "max_count" in txt or "node.min" in txt or "node.max" in txt) and any(isinstance(c, ast.Constant) and isinstance(c.value, int) and c.value >= 100 for c in ast.walk(n.test)) and raises_in(n.body, "RegExpError"):
                        return f"{f.qual}:{n.lineno}: if {txt}"
        return None

    bound = has_bound(par) or has_bound(comp)
    steps, why = _budgeted_steps(ctx, comp)
    for f in ctx.tree.funcs:
        if f.module is not comp:
            continue
        for n in f.own_nodes():
            if isinstance(n, ast.For) and isinstance(n.iter, ast.Call) and norm(n.iter.func) == "range":
                arg = norm(n.iter.args[0]) if n.iter.args else ""
                if "count" not in arg and "min" not in arg and "max" not in arg:
                    continue
                key = f"{f.qual}:range({arg})"
                if bound:
                    rep.ok(rid, key, {"bound": bound})
                    continue
                if steps:
                    cfg = ctx.facts.cfg(f)
                    head = cfg.loop_head[id(n)]
                    within = cfg.loop_nodes[id(n)]
                    blocked = {x.id for x in cfg.nodes if x.id in within and node_calls(x, lambda c: bool(ctx.cg.site_of_call.get(id(c)) and ctx.cg.site_of_call[id(c)].kind == "resolved" and any(id(t) in steps for t in ctx.cg.site_of_call[id(c)].targets)))}
                    p = cfg.path_avoiding(head.id, lambda x: x.id == head.id, blocked, within, start_succ=True)
                    if p is None:
                        rep.ok(rid, key, {"budget": why})
                        continue
                    rep.bad(rid, key, f"{f.qual} unrolls range({arg}) and an iteration path [{path_str(p)}] does not pass a budgeted compile step: the loop runs as many times as the pattern says", f"{f.module.rel}:{n.lineno}")
                    continue
                rep.bad(rid, key, f"{f.qual} unrolls the body range({arg}) times with no upper bound on the quantifier count and no compile-step budget anywhere in the regex parser or compiler: `a{{99999999}}` allocates without limit before any deadline poll", f"{f.module.rel}:{n.lineno}")


def rule_zero_width_guard(ctx, rep, rid: str) -> None:
    rep.rule(rid, "the zero-width analysis answers 'may match empty' conservatively (default True, False only for always-consuming leaves) and every unbounded-loop emitter brackets the body with SET_POS/CHECK_ADVANCE when it says so", floor=3)
    f = ctx.tree.method("RegexCompiler", "_needs_advance_check")
    consuming = {"Char", "Dot", "CharClass", "Shorthand"}
    rets = [n for n in f.own_nodes() if isinstance(n, ast.Return)]
    last = f.body()[-1]
    if isinstance(last, ast.Return) and isinstance(last.value, ast.Constant) and last.value.value is True:
        rep.ok(rid, "_needs_advance_check:default", {"default": "True"})
    else:
        rep.bad(rid, "_needs_advance_check:default", "_needs_advance_check does not default to True for unknown node kinds", f.loc)
    for r in rets:
        if isinstance(r.value, ast.Constant) and r.value.value is False:
            g = guards_of(r, f.node)
            classes = set()
            for tst, pol in g:
                for c in ast.walk(tst):
                    if isinstance(c, ast.Call) and norm(c.func) == "isinstance":
                        k = c.args[1]
                        classes.update([k.id] if isinstance(k, ast.Name) else [e.id for e in getattr(k, "elts", []) if isinstance(e, ast.Name)])
            key = f"_needs_advance_check:False@{'/'.join(sorted(classes)) or 'unguarded'}"
            if classes and classes <= consuming:
                rep.ok(rid, key)
            elif classes and classes <= consuming | {"Backref", "Anchor", "Lookahead", "Lookbehind"} - consuming:
                rep.bad(rid, key, f"_needs_advance_check returns False for {sorted(classes - consuming)}, which can match the empty string: a loop over it can spin without advancing", f"{f.module.rel}:{r.lineno}")
            elif not classes:
                rep.bad(rid, key, "_needs_advance_check returns False without an isinstance guard on an always-consuming leaf class", f"{f.module.rel}:{r.lineno}")
            else:
                rep.ok(rid, key, {"note": "guarded by " + ",".join(sorted(classes))})
    for name in ("_compile_star", "_compile_plus"):
        g = ctx.tree.method("RegexCompiler", name)
        # the emitter itself, and the emitters it hands the body to together with the zero-width verdict (X+ as X{1,})
        chain, q = [g], [g]
        while q:
            h = q.pop()
            for c in h.own_nodes():
                if isinstance(c, ast.Call) and isinstance(c.func, ast.Attribute) and norm(c.func.value) == "self" and any(norm(a) == "need_advance_check" for a in c.args):
                    m2 = ctx.tree.find_method(g.cls, c.func.attr)
                    if m2 is not None and all(m2 is not x for x in chain):
                        chain.append(m2)
                        q.append(m2)
        txt = " ".join(norm(s) for h in chain for s in h.body())
        if "Op.SET_POS" in txt and "Op.CHECK_ADVANCE" in txt and "need_advance_check" in txt:
            rep.ok(rid, f"{name}:guard-emitted")
        else:
            rep.bad(rid, f"{name}:guard-emitted", f"{name} no longer emits SET_POS … CHECK_ADVANCE under need_advance_check: an empty-matching body loops forever (until the step budget)", g.loc)


# ----------------------------------------------------------------- C20 rules
def _eval_nonglobal(t):
    """Three-valued truth of a guard for a regex that is neither global nor sticky (None = unknown)."""
    if isinstance(t, (ast.Name, ast.Attribute)):
        nm = norm(t).lower()
        return False if ("global" in nm or "sticky" in nm) else None
    if isinstance(t, ast.UnaryOp) and isinstance(t.op, ast.Not):
        v = _eval_nonglobal(t.operand)
        return None if v is None else (not v)
    if isinstance(t, ast.BoolOp):
        vs = [_eval_nonglobal(v) for v in t.values]
        if isinstance(t.op, ast.Or):
            if any(v is True for v in vs):
                return True
            return False if all(v is False for v in vs) else None
        if any(v is False for v in vs):
            return False
        return True if all(v is True for v in vs) else None
    if isinstance(t, ast.Constant):
        return bool(t.value)
    return None


def _feasible_nonglobal(gs) -> bool:
    for t, pol in gs:
        v = _eval_nonglobal(t)
        if v is not None and v != bool(pol):
            return False
    return True


def _copy_in_sources(ctx, js, m, call_line):
    """Assignments to self._internal.lastIndex that run before the matcher call — in the method itself or in a
    helper method of the class it calls first.  Returns [(assign node, holder func, [(source expr, guards)])]."""
    out = []
    holders = [(m, call_line)]
    for n in m.own_nodes():
        if isinstance(n, ast.Call) and isinstance(n.func, ast.Attribute) and norm(n.func.value) == "self" and n.lineno < call_line:
            h = js.methods.get(n.func.attr)
            if h is not None and h is not m:
                holders.append((h, 10 ** 9))
    for h, limit in holders:
        for n in h.own_nodes():
            if isinstance(n, ast.Assign) and norm(n.targets[0]) == "self._internal.lastIndex" and n.lineno < limit:
                srcs = []
                g0 = guards_of(n, h.node)
                if isinstance(n.value, ast.Name):
                    for a in h.own_nodes():
                        if isinstance(a, ast.Assign) and any(isinstance(t, ast.Name) and t.id == n.value.id for t in a.targets):
                            srcs.append((a.value, g0 + guards_of(a, h.node)))
                if not srcs:
                    srcs.append((n.value, g0))
                flat = []
                work = list(srcs)
                while work:
                    e, gs = work.pop()
                    if isinstance(e, ast.IfExp):
                        work.append((e.body, gs + [(e.test, True)]))
                        work.append((e.orelse, gs + [(e.test, False)]))
                    else:
                        flat.append((e, gs))
                out.append((n, h, flat))
    return out


def rule_lastindex_sync(ctx, rep, rid: str) -> None:
    rep.rule(rid, "every JSRegExp method that runs the internal matcher copies the script-visible lastIndex into the engine before the call and back after it; unless the write-back is guarded by the global/sticky flags, no flag-dependent path may feed the engine anything but the property's value (a non-global regex must get its own lastIndex back); the lastIndex setter writes both copies", floor=3)
    js = ctx.tree.class_named("JSRegExp")
    for m in js.methods.values():
        calls = [n for n in m.own_nodes() if isinstance(n, ast.Call) and norm(n.func).startswith("self._internal.") and n.func.attr in ("exec", "test", "match", "search")]
        if not calls:
            continue
        c = calls[0]
        key = f"{m.qual}:sync"
        copy_in = _copy_in_sources(ctx, js, m, c.lineno)
        after = [(s_, m) for s_ in m.own_nodes() if isinstance(s_, ast.Assign) and s_.lineno > c.lineno and norm(s_.targets[0]) == "self.lastIndex" and norm(s_.value) == "self._internal.lastIndex"]
        # ... or in a helper method of the class called after the matcher
        for n_ in m.own_nodes():
            if isinstance(n_, ast.Call) and isinstance(n_.func, ast.Attribute) and norm(n_.func.value) == "self" and n_.lineno > c.lineno:
                h_ = js.methods.get(n_.func.attr)
                if h_ is not None and h_ is not m:
                    after += [(s_, h_) for s_ in h_.own_nodes() if isinstance(s_, ast.Assign) and norm(s_.targets[0]) == "self.lastIndex" and norm(s_.value) == "self._internal.lastIndex"]
        if not copy_in or not after:
            rep.bad(rid, key, f"{m.qual} runs the matcher without {'copying lastIndex in' if not copy_in else 'copying lastIndex back'}: the script-visible lastIndex and the engine's drift apart", m.loc)
            continue
        def flaggy(gs):
            return any(("global" in norm(t) or "sticky" in norm(t)) for t, _ in gs)
        back_guarded = all(flaggy(guards_of(a, holder.node)) for a, holder in after)
        problem = None
        for n, h, srcs in copy_in:
            for src, gs in srcs:
                derives = "lastIndex" in norm(src) or any(isinstance(x, ast.Name) for x in ast.walk(src))
                if not derives and not gs:
                    problem = (n, h, f"feeds the engine the constant {norm(src)} instead of the property")
                elif not derives and flaggy(gs) and _feasible_nonglobal(gs) and not back_guarded:
                    problem = (n, h, f"feeds the engine the constant {norm(src)} on a path that depends on the global/sticky flags, and the write-back after the matcher is unconditional: a non-global regex's lastIndex is overwritten with that constant instead of being preserved")
        if problem:
            n, h, why = problem
            rep.bad(rid, key, f"{m.qual}: {h.qual} {why}", f"{h.module.rel}:{n.lineno}")
        else:
            rep.ok(rid, key, {"copy_in": [f"{h.qual}:{norm(n)[:60]}" for n, h, _ in copy_in], "write_back_flag_guarded": back_guarded})
    # what the engine receives is a position: the script-stored value goes through the integer conversion
    getter = None
    for n in js.node.body:
        if isinstance(n, ast.FunctionDef) and n.name == "lastIndex" and any(norm(d) == "property" for d in n.decorator_list):
            getter = n
    key = "JSRegExp.lastIndex:engine-receives-a-position"
    raw_reads = []
    for m in js.methods.values():
        for n in m.own_nodes():
            if isinstance(n, ast.Assign) and norm(n.targets[0]) == "self._internal.lastIndex" and not (isinstance(m.node, ast.FunctionDef) and any("setter" in norm(d) for d in m.node.decorator_list)):
                v = n.value
                if norm(v) == "self.lastIndex" and getter is not None:
                    rets = [r.value for r in ast.walk(getter) if isinstance(r, ast.Return) and r.value is not None]
                    for r in rets:
                        txt = norm(r)
                        if not (("to_integer(" in txt or "to_length(" in txt or "_to_length(" in txt) and ("max(0" in txt or "to_length(" in txt)):
                            raw_reads.append((m, n, f"the lastIndex getter returns {short(r, 50)}"))
                elif "get('lastIndex')" in norm(v) and "to_integer(" not in norm(v):
                    raw_reads.append((m, n, f"{short(v, 50)}"))
    if raw_reads:
        m_, n_, why = raw_reads[0]
        rep.bad(rid, key, f"{m_.qual} hands the matcher the script-stored lastIndex without the ToLength conversion ({why}): a fraction, string or object stored by the script raises a host TypeError in the matcher, a negative number indexes from the end", f"{m_.module.rel}:{n_.lineno}")
    else:
        rep.ok(rid, key)
    # setter
    setter = None
    for n in js.node.body:
        if isinstance(n, ast.FunctionDef) and n.name == "lastIndex" and any("setter" in norm(d) for d in n.decorator_list):
            setter = n
    if setter is None:
        rep.bad(rid, "JSRegExp.lastIndex:setter", "JSRegExp has no lastIndex setter", f"{js.module.rel}:{js.node.lineno}")
    else:
        txt = " ".join(norm(s) for s in setter.body)
        if "self.set('lastIndex', value)" in txt and "self._internal.lastIndex = value" in txt:
            rep.ok(rid, "JSRegExp.lastIndex:setter")
        else:
            rep.bad(rid, "JSRegExp.lastIndex:setter", "the lastIndex setter does not write both the property and the engine's copy", f"{js.module.rel}:{setter.lineno}")


def rule_exec_test_agreement(ctx, rep, rid: str) -> None:
    rep.rule(rid, "RegExp.exec and RegExp.test update/reset lastIndex under the same flag conditions (global / sticky)", floor=2)
    facade = ctx.tree.mod("regex.regex").classes["RegExp"]
    conds: Dict[str, List[Tuple[str, str]]] = {}
    for name in ("exec", "test"):
        m = facade.methods.get(name)
        if m is None:
            raise AnalysisError(f"RegExp.{name} not found")
        lst = []
        for n in m.own_nodes():
            if isinstance(n, ast.Assign) and norm(n.targets[0]) == "self.lastIndex":
                g = guards_of(n, m.node)
                flagconds = tuple(sorted(norm(t) for t, pol in g if "self._global" in norm(t) or "self._sticky" in norm(t) and norm(t) != "self._sticky"))
                region = "sticky" if any(norm(t) == "self._sticky" and pol for t, pol in g) else "search"
                kind = "reset" if norm(n.value) == "0" else "advance"
                # ignore the unicode-index validity reset
                if any("cp_start is None" in norm(t) for t, _ in g):
                    continue
                lst.append((f"{region}:{kind}", " and ".join(flagconds) or "<unconditional>"))
        conds[name] = lst
    # both methods delegating to one shared helper agree by construction
    def delegate(name: str):
        m = facade.methods.get(name)
        calls = [c for c in m.own_nodes() if isinstance(c, ast.Call) and isinstance(c.func, ast.Attribute) and norm(c.func.value) == "self" and c.func.attr in facade.methods and c.func.attr not in ("_create_vm",)]
        return calls[0].func.attr if len(calls) == 1 and not conds[name] else None

    d_exec, d_test = delegate("exec"), delegate("test")
    if d_test == "exec" or d_exec == "test":
        # one is defined by the other and writes lastIndex nowhere itself
        rep.ok(rid, "RegExp.exec/test:shared-step", {"delegation": "test -> exec" if d_test == "exec" else "exec -> test"})
        rep.ok(rid, "RegExp.exec/test:shared-step:reset", {"delegation": "test -> exec" if d_test == "exec" else "exec -> test"})
        return
    if d_exec is not None and d_exec == d_test:
        rep.ok(rid, "RegExp.exec/test:shared-step", {"helper": d_exec})
        rep.ok(rid, "RegExp.exec/test:shared-step:reset", {"helper": d_exec})
        return
    keys = sorted({k for lst in conds.values() for k, _ in lst})
    for k in keys:
        a = sorted({c for kk, c in conds["exec"] if kk == k})
        b = sorted({c for kk, c in conds["test"] if kk == k})
        key = f"RegExp.exec/test:{k}"
        if a == b:
            rep.ok(rid, key, {"condition": a})
        else:
            rep.bad(rid, key, f"lastIndex {k.split(':')[1]} in the {k.split(':')[0]} path happens under {a} in exec but under {b} in test", f"{facade.module.rel}:{facade.methods['test'].line}")


# ---- C09-R4: backtrack snapshots own their capture state ---------------------------------------

def _copy_depth(e: ast.AST, state_names: Set[str]) -> Optional[Tuple[str, str]]:
    """(state variable, DEEP|SHALLOW|ALIAS) when e is (a copy of) one of the matcher's state lists."""
    if isinstance(e, ast.Name) and e.id in state_names:
        return e.id, "ALIAS"
    if isinstance(e, ast.Call):
        fn = e.func
        if isinstance(fn, ast.Attribute) and fn.attr == "copy" and isinstance(fn.value, ast.Name) and fn.value.id in state_names and not e.args:
            return fn.value.id, "SHALLOW"
        if isinstance(fn, ast.Name) and fn.id in ("list", "tuple") and len(e.args) == 1 and isinstance(e.args[0], ast.Name) and e.args[0].id in state_names:
            return e.args[0].id, "SHALLOW"
        if norm(fn) in ("copy.deepcopy", "deepcopy") and e.args and isinstance(e.args[0], ast.Name) and e.args[0].id in state_names:
            return e.args[0].id, "DEEP"
        if norm(fn) in ("copy.copy",) and e.args and isinstance(e.args[0], ast.Name) and e.args[0].id in state_names:
            return e.args[0].id, "SHALLOW"
    if isinstance(e, ast.Subscript) and isinstance(e.value, ast.Name) and e.value.id in state_names and isinstance(e.slice, ast.Slice) and e.slice.lower is None and e.slice.upper is None:
        return e.value.id, "SHALLOW"
    if isinstance(e, ast.ListComp) and len(e.generators) == 1 and isinstance(e.generators[0].iter, ast.Name) and e.generators[0].iter.id in state_names and isinstance(e.generators[0].target, ast.Name):
        tv = e.generators[0].target.id
        el = e.elt
        copies = (isinstance(el, ast.Call) and ((isinstance(el.func, ast.Attribute) and el.func.attr == "copy" and norm(el.func.value) == tv) or (isinstance(el.func, ast.Name) and el.func.id in ("list", "tuple") and el.args and norm(el.args[0]) == tv))) or (isinstance(el, ast.Subscript) and norm(el.value) == tv and isinstance(el.slice, ast.Slice)) or (isinstance(el, (ast.List, ast.Tuple)) and all(isinstance(x, ast.Subscript) and norm(x.value) == tv for x in el.elts))
        return e.generators[0].iter.id, ("DEEP" if copies else "SHALLOW")
    return None


def _unreplaced_writes(per_fn, var: str):
    """Writes `var[i] = x` (in any matcher function) that are not preceded, in the same handler, by a rebinding of
    `var` to a copy of itself.  None when no writer rebinding exists at all (the code is not copy-on-write)."""
    out = []
    any_cow = False
    for f, nested, flat, snaps, _i in per_fn:
        for w in f.own_nodes():
            if not (isinstance(w, ast.Assign) and any(isinstance(t, ast.Subscript) and isinstance(t.value, ast.Name) and t.value.id == var for t in w.targets)):
                continue
            replaced = False
            child = w
            par = getattr(w, "_parent", None)
            while par is not None and par is not f.node:
                for field in ("body", "orelse"):
                    blk = getattr(par, field, None)
                    if isinstance(blk, list) and any(child is q for q in blk):
                        for q in blk:
                            if q is child:
                                break
                            if isinstance(q, ast.Assign) and len(q.targets) == 1 and isinstance(q.targets[0], ast.Name) and q.targets[0].id == var:
                                d = _copy_depth(q.value, {var})
                                if d is not None and d[1] in ("SHALLOW", "DEEP"):
                                    replaced = True
                if isinstance(par, ast.If) and any(isinstance(x, ast.Name) and x.id in ("opcode", "op") for x in ast.walk(par.test)):
                    break
                child = par
                par = getattr(par, "_parent", None)
            if replaced:
                any_cow = True
            else:
                out.append((f, w))
    return out if any_cow else None


def rule_snapshot_ownership(ctx, rep, rid: str) -> None:
    """Backtracking restores a snapshot taken at a choice point.  That only undoes later capture writes when the
    snapshot does not share mutable slots with the live state: either snapshots copy every slot, or every write
    installs a fresh slot.  Decided per matcher loop, with the write mode taken over ALL loops because the
    capture lists flow between them (arguments and return values)."""
    rep.rule(rid, "choice-point snapshots never share mutable state with the live match state: capture snapshots copy each slot unless every capture write in every matcher loop replaces the slot; no snapshot is a bare alias", floor=1)
    loops = ctx.facts.matcher_loops()
    inplace: List[Tuple[Func, ast.AST]] = []
    per_fn = []
    # helpers that start nested matcher runs (e.g. one run per candidate start of a lookbehind) hand over
    # capture lists too
    loop_fns = {id(g) for g, _ in loops}
    helpers = []
    for g in ctx.tree.funcs:
        if id(g) in loop_fns or g.cls is None or not any(g.cls is lf.cls for lf, _ in loops):
            continue
        if any(cs.kind == "resolved" and any(id(t) in loop_fns for t in cs.targets) and any("capture" in norm(a) for a in cs.call.args) for cs in ctx.cg.sites_of.get(id(g), [])):
            helpers.append((g, None))
    for f, _loop in list(loops) + helpers:
        # nested state: variables whose elements are lists ([[..] for ..] initialisers or copies of a parameter holding them)
        nested: Set[str] = set()
        flat: Set[str] = set()
        for n in f.own_nodes():
            if isinstance(n, ast.Assign) and len(n.targets) == 1 and isinstance(n.targets[0], ast.Name):
                v = n.value
                if isinstance(v, ast.ListComp) and isinstance(v.elt, (ast.List, ast.ListComp)):
                    nested.add(n.targets[0].id)
                elif isinstance(v, ast.BinOp) and isinstance(v.op, ast.Mult) and isinstance(v.left, ast.List):
                    flat.add(n.targets[0].id)
                elif isinstance(v, ast.List) and not any(isinstance(e, (ast.List, ast.ListComp)) for e in v.elts):
                    flat.add(n.targets[0].id)
            if isinstance(n, ast.AnnAssign) and isinstance(n.target, ast.Name) and n.value is not None and "Tuple" not in norm(n.annotation):
                if isinstance(n.value, ast.List) and not n.value.elts and "List[List" not in norm(n.annotation):
                    flat.add(n.target.id)
        # parameters / derived names carrying capture lists
        for p in f.params():
            if "capture" in p.lower():
                nested.add(p)
        changed = True
        while changed:
            changed = False
            for n in f.own_nodes():
                if isinstance(n, ast.Assign) and len(n.targets) == 1 and isinstance(n.targets[0], ast.Name) and n.targets[0].id not in nested:
                    d = _copy_depth(n.value, nested)
                    if d is not None:
                        nested.add(n.targets[0].id)
                        changed = True
        if _loop is None:
            # a helper owns the lists it creates itself; only what it RECEIVES is the caller's live state
            nested = {x for x in nested if x in f.params()}
            flat = set()
        state = nested | flat
        snaps = []
        loop_ids = {id(g) for g, _ in loops}
        for n in f.own_nodes():
            # a nested run of a matcher loop (the body of a lookaround) works on the list it is given: what it
            # is given must not share slots with the caller's live state
            if isinstance(n, ast.Call):
                cs = ctx.cg.site_of_call.get(id(n))
                if cs is not None and cs.kind == "resolved" and any(id(t) in loop_ids for t in cs.targets):
                    for a in list(n.args) + [k.value for k in n.keywords]:
                        d = _copy_depth(a, state)
                        if d is not None and d[0] in nested:
                            snaps.append((n, d[0], d[1], "argument of a nested matcher run"))
            # stack.append((pc, sp, <captures>, <registers>))
            if isinstance(n, ast.Call) and isinstance(n.func, ast.Attribute) and n.func.attr == "append" and n.args and isinstance(n.args[0], ast.Tuple):
                for el in n.args[0].elts:
                    d = _copy_depth(el, state)
                    if d is not None:
                        snaps.append((n, d[0], d[1], "choice point"))
            if isinstance(n, ast.Assign) and len(n.targets) == 1 and isinstance(n.targets[0], ast.Name):
                d = _copy_depth(n.value, state)
                if d is not None and n.targets[0].id != d[0] and d[1] != "ALIAS":
                    snaps.append((n, d[0], d[1], f"saved copy {n.targets[0].id}"))
                elif d is not None and n.targets[0].id != d[0] and d[1] == "ALIAS" and ("saved" in n.targets[0].id or d[0] in f.params()):
                    snaps.append((n, d[0], d[1], f"saved copy {n.targets[0].id}"))
            # in-place slot writes: captures[i][j] = v
            tg = []
            if isinstance(n, ast.Assign):
                tg = n.targets
            elif isinstance(n, ast.AugAssign):
                tg = [n.target]
            for t in tg:
                if isinstance(t, ast.Subscript) and isinstance(t.value, ast.Subscript) and isinstance(t.value.value, ast.Name) and t.value.value.id in nested:
                    inplace.append((f, n))
            if isinstance(n, ast.Call) and isinstance(n.func, ast.Attribute) and n.func.attr in ("append", "extend", "insert", "pop", "clear", "sort", "reverse") and isinstance(n.func.value, ast.Subscript) and isinstance(n.func.value.value, ast.Name) and n.func.value.value.id in nested:
                inplace.append((f, n))
        # isolated: every local state list derived from a parameter is a deep copy of it (slots not shared with the caller)
        isolated = True
        for n in f.own_nodes():
            if isinstance(n, ast.Assign) and len(n.targets) == 1 and isinstance(n.targets[0], ast.Name):
                d = _copy_depth(n.value, set(f.params()) & nested)
                if d is not None and d[1] != "DEEP":
                    isolated = False
        for t_ in [w for g_, w in inplace if g_ is f]:
            tn = t_.targets[0] if isinstance(t_, ast.Assign) else getattr(t_, "target", None)
            if tn is not None and isinstance(tn, ast.Subscript) and isinstance(tn.value, ast.Subscript) and isinstance(tn.value.value, ast.Name) and tn.value.value.id in f.params():
                isolated = False
        per_fn.append((f, nested, flat, snaps, isolated))
    iso = {id(f): i for f, _, _, _, i in per_fn}
    for f, nested, flat, snaps, _i in per_fn:
        inplace_f = [(g, w) for g, w in inplace if g is f or not iso[id(g)]]
        key = f"{f.qual}:snapshots"
        if not snaps:
            # a matcher loop without choice points is fine only if it has no split handling; floors make sure the others are seen
            rep.ok(rid, key, {"snapshots": 0})
            continue
        bad = None
        for n, var, depth, what in snaps:
            if depth == "ALIAS":
                # copy-on-write: sharing the list is sound when every writer replaces the list before it writes
                # (and no slot is mutated in place)
                cow = _unreplaced_writes(per_fn, var)
                if cow is not None and not cow and not inplace_f:
                    continue
                if cow:
                    g, w = cow[0]
                    bad = (n, f"the {what} keeps the live `{var}` list by reference (copy-on-write), but {g.qual} writes `{norm(w)[:40]}` (line {w.lineno}) without replacing the list first, while the other writers do: that write also changes the snapshots saved at earlier choice points, so captures of an abandoned alternative survive backtracking (or are wiped for the one that is taken)")
                    break
                bad = (n, f"the {what} stores the live `{var}` list itself: later writes change the snapshot too, so backtracking restores nothing")
                break
            if depth == "SHALLOW" and var in nested and inplace_f:
                g, w = inplace_f[0]
                bad = (n, f"the {what} copies only the outer `{var}` list, while {g.qual} still writes capture slots in place ({norm(w)[:50]}, {g.module.rel}:{w.lineno}): an abandoned alternative's capture survives backtracking")
                break
        if bad:
            rep.bad(rid, key, f"{f.qual}: {bad[1]}", f"{f.module.rel}:{bad[0].lineno}")
        else:
            rep.ok(rid, key, {"snapshots": len(snaps), "depths": sorted({d for _, _, d, _ in snaps}), "in_place_slot_writes_that_can_touch_it": len(inplace_f)})


# ---- C20-R4/R5: empty matches in exec/test and in split ------------------------------------------------
def rule_lastindex_is_match_end(ctx, rep, rid: str) -> None:
    """exec/test leave lastIndex at index + length of the match, also for an empty match: stepping over an empty
    match (AdvanceStringIndex) belongs to match/replace/split, not to exec."""
    rep.rule(rid, "where exec/test of the regex facade advance lastIndex after a match, the new value is the end of the match for every match length (no `+ 1` arm for the empty match)", floor=1)
    facade = ctx.tree.mod("regex.regex").classes["RegExp"]
    n = 0
    for m in facade.all_methods:
        for a in m.own_nodes():
            if not isinstance(a, ast.Assign):
                continue
            tg = norm(a.targets[0])
            if tg not in ("self.lastIndex", "end_cp", "end"):
                continue
            v = a.value
            txt = norm(v)
            if "result.index" not in txt and ".index" not in txt:
                continue
            n += 1
            key = f"{m.qual}:{tg} = {short(v, 40)}"
            plus_one = any(isinstance(x, ast.BinOp) and isinstance(x.op, ast.Add) and isinstance(x.right, ast.Constant) and x.right.value == 1 and ".index" in norm(x.left) for x in ast.walk(v))
            # a later `x += 1` under an emptiness test is the same slip
            later = any(isinstance(x, ast.AugAssign) and norm(x.target) == tg and isinstance(x.op, ast.Add) and norm(x.value) == "1" for x in m.own_nodes())
            if plus_one or later:
                rep.bad(rid, key, f"{m.qual} puts lastIndex one past the index of an empty match: /a*/g.exec('b') leaves lastIndex at 1, ECMAScript at 0 (the end of the match); the script's own loops over exec then skip a position", f"{m.module.rel}:{a.lineno}")
            else:
                rep.ok(rid, key)
    if n < 1:
        raise AnalysisError("lastIndex advances of RegExp.exec/test not found")


def rule_split_separator_discipline(ctx, rep, rid: str) -> None:
    """String.prototype.split with a regex (ECMAScript SplitMatcher loop): only matches that start inside the string
    are separators, an empty match at the end of the previous piece separates nothing, and the empty string splits
    into no pieces when the separator matches it."""
    rep.rule(rid, "the regex branch of split searches only while the position is inside the string, skips a match that ends where the previous piece ended, and treats the empty subject separately", floor=3)
    f = next((g for g in ctx.tree.funcs if g.name == "split" and g.parent is not None and g.parent.name == "_make_string_method"), None)
    if f is None:
        raise AnalysisError("string split native not found")
    def matcher_loops(g):
        return [n for n in g.own_nodes() if isinstance(n, ast.While) and any(isinstance(c, ast.Call) and isinstance(c.func, ast.Attribute) and c.func.attr in ("search", "match") for c in ast.walk(n))]

    loops = matcher_loops(f)
    if not loops:
        # the regex branch may live in a local helper that split calls (a sibling or a nested function)
        for cs in ctx.cg.sites_of.get(id(f), []):
            for g in cs.targets if cs.kind == "resolved" else []:
                if g.parent is not None and (g.parent is f or g.parent is f.parent) and not isinstance(g.node, ast.Lambda) and matcher_loops(g):
                    f, loops = g, matcher_loops(g)
    if not loops:
        raise AnalysisError("split: the matcher loop was not found")
    loop = loops[0]
    # (1) strictly inside the string
    t = norm(loop.test).replace(" ", "")
    key = f"{f.qual}:loop-bound"
    inside = any(isinstance(c, ast.Compare) and isinstance(c.ops[0], ast.Lt) and "len(s)" in norm(c.comparators[0]) for c in ast.walk(loop.test)) or any(isinstance(i, ast.If) and ">=len(s)" in norm(i.test).replace(" ", "") and i.body and isinstance(i.body[-1], ast.Break) for i in loop.body)
    if inside:
        rep.ok(rid, key)
    else:
        rep.bad(rid, key, f"the split loop runs while `{norm(loop.test)}`: a match that starts at the end of the string (an empty one) is taken for a separator and appends an empty piece ('abc'.split(/x*/) ends with '')", f"{f.module.rel}:{loop.lineno}")
    # (2) empty match at the previous end is skipped
    key = f"{f.qual}:empty-match-at-previous-end"
    prev = {a.targets[0].id for a in f.own_nodes() if isinstance(a, ast.Assign) and isinstance(a.targets[0], ast.Name) and isinstance(a.value, ast.Constant) and a.value.value == 0 and a.lineno < loop.lineno}
    skip = False
    for i in ast.walk(loop):
        if isinstance(i, ast.If) and isinstance(i.test, ast.Compare) and isinstance(i.test.ops[0], ast.Eq) and any(isinstance(x, ast.Name) and x.id in prev for x in ast.walk(i.test)) and i.body and isinstance(i.body[-1], ast.Continue):
            skip = True
    if skip:
        rep.ok(rid, key)
    else:
        rep.bad(rid, key, "the split loop takes every match for a separator: an empty match where the previous piece ended yields empty pieces ('abc'.split(/x*/) starts with '', 'abc'.split(/b*/) is ['', 'a', '', 'c', ''])", f"{f.module.rel}:{loop.lineno}")
    # (3) empty subject
    key = f"{f.qual}:empty-subject"
    txt = " ; ".join(norm(x) for x in f.own_nodes() if isinstance(x, ast.If))
    if "if s or " in txt or "if not s" in txt or "len(s) == 0" in txt or "s == ''" in txt:
        rep.ok(rid, key)
    else:
        rep.bad(rid, key, "split does not treat the empty subject separately: ''.split(/x*/) must be [] when the separator matches the empty string", f.loc)


# ---- subject positions are never negative -----------------------------------------------------------------
def _position_params(ctx, ci) -> Dict[str, Set[str]]:
    """method name -> parameters that are positions in the subject: used to subscript a string parameter, or
    passed on as such a parameter of another method of the class (fixpoint)."""
    out: Dict[str, Set[str]] = {}
    methods = {m.name: m for m in ci.all_methods if not isinstance(m.node, ast.Lambda)}
    for name, m in methods.items():
        ps = set(m.params()) - {"self"}
        strs = {a.arg for a in m.node.args.args if a.annotation is not None and norm(a.annotation) == "str"}
        pos = set()
        for n in m.own_nodes():
            if isinstance(n, ast.Subscript) and isinstance(n.value, ast.Name) and n.value.id in strs and isinstance(n.slice, ast.Name) and n.slice.id in ps:
                pos.add(n.slice.id)
        out[name] = pos
    changed = True
    while changed:
        changed = False
        for name, m in methods.items():
            ps = set(m.params()) - {"self"}
            for c in m.own_nodes():
                if isinstance(c, ast.Call) and isinstance(c.func, ast.Attribute) and norm(c.func.value) == "self" and c.func.attr in methods:
                    callee = methods[c.func.attr]
                    cps = [a.arg for a in callee.node.args.args if a.arg != "self"]
                    for i, a in enumerate(c.args):
                        if i < len(cps) and cps[i] in out[c.func.attr] and isinstance(a, ast.Name) and a.id in ps and a.id not in out[name]:
                            out[name].add(a.id)
                            changed = True
    return out


def _nonneg(e: ast.AST, f: Func, assumed: Set[str], at: ast.AST, depth: int = 0) -> bool:
    from ..util import atoms, known_conditions

    if depth > 6:
        return False
    if isinstance(e, ast.Constant):
        return isinstance(e.value, int) and e.value >= 0
    if isinstance(e, ast.Call):
        fn = norm(e.func)
        if fn == "len":
            return True
        if fn == "max":
            return any(_nonneg(a, f, assumed, at, depth + 1) for a in e.args)
        if fn == "min":
            return all(_nonneg(a, f, assumed, at, depth + 1) for a in e.args)
        return False
    if isinstance(e, ast.BinOp) and isinstance(e.op, (ast.Add, ast.Mult)):
        return _nonneg(e.left, f, assumed, at, depth + 1) and _nonneg(e.right, f, assumed, at, depth + 1)
    if isinstance(e, ast.IfExp):
        return _nonneg(e.body, f, assumed, at, depth + 1) and _nonneg(e.orelse, f, assumed, at, depth + 1)
    txt = norm(e).replace(" ", "")
    ats = [(norm(a).replace(" ", ""), p) for t, pol in known_conditions(at, f.node) for a, p in atoms(t, pol)]
    if any((a in (f"{txt}<0", f"0>{txt}") and not p) or (a in (f"{txt}>=0", f"0<={txt}", f"{txt}>0", f"0<{txt}") and p) for a, p in ats):
        return True
    if isinstance(e, ast.BinOp) and isinstance(e.op, ast.Sub):
        l, r = norm(e.left).replace(" ", ""), norm(e.right).replace(" ", "")
        if any((a in (f"{l}>={r}", f"{r}<={l}", f"{l}>{r}", f"{r}<{l}") and p) or (a in (f"{l}<{r}", f"{r}>{l}") and not p) for a, p in ats):
            return True
        return False
    if isinstance(e, ast.Name):
        if e.id in assumed:
            # a position parameter of this method, changed only by additions
            return all(not (isinstance(s, ast.AugAssign) and isinstance(s.target, ast.Name) and s.target.id == e.id and not isinstance(s.op, ast.Add)) for s in f.own_nodes())
        # a loop variable
        for s in f.own_nodes():
            if isinstance(s, (ast.For, ast.comprehension)) and isinstance(s.target, ast.Name) and s.target.id == e.id and isinstance(s.iter, ast.Call) and norm(s.iter.func) == "range":
                a = s.iter.args
                if len(a) == 1:
                    return True
                step = a[2] if len(a) == 3 else None
                if step is None or (isinstance(step, ast.Constant) and isinstance(step.value, int) and step.value > 0):
                    return _nonneg(a[0], f, assumed, s, depth + 1)
                # descending: the stop value is exclusive, so stop >= -1 keeps the variable >= 0
                stop = a[1]
                if isinstance(stop, ast.UnaryOp) and isinstance(stop.op, ast.USub) and isinstance(stop.operand, ast.Constant) and stop.operand.value == 1:
                    return True
                if isinstance(stop, ast.Constant) and isinstance(stop.value, int) and stop.value >= -1:
                    return True
                if isinstance(stop, ast.BinOp) and isinstance(stop.op, ast.Sub) and isinstance(stop.right, ast.Constant) and stop.right.value == 1:
                    return _nonneg(stop.left, f, assumed, s, depth + 1)
                return False
        vals = [s for s in f.own_nodes() if isinstance(s, ast.Assign) and any(isinstance(t, ast.Name) and t.id == e.id for t in s.targets)]
        if vals and not any(isinstance(s, ast.AugAssign) and isinstance(s.target, ast.Name) and s.target.id == e.id and not isinstance(s.op, ast.Add) for s in f.own_nodes()):
            return all(_nonneg(s.value, f, assumed, s, depth + 1) for s in vals)
        return False
    return False


def rule_positions_nonnegative(ctx, rep, rid: str) -> None:
    """No matcher method is entered with a negative subject position: the instructions test `sp >= len(string)`
    only, and the host reads string[-1] as the LAST character, so a negative start silently matches text that is
    not there (a lookbehind that scans back past the start of the subject)."""
    rep.rule(rid, "inside the regex matcher, every argument passed for a subject-position parameter (one that subscripts the subject, directly or further down) is provably non-negative: a constant, a position parameter that is only ever increased, a loop variable of a range that stops at or above 0, a value clamped with max(0, ..) or tested `< 0` before: the host would read a negative position from the end of the subject", floor=4)
    mod = ctx.tree.mod("regex.vm")
    n = 0
    for ci in mod.classes.values():
        pos = _position_params(ctx, ci)
        methods = {m.name: m for m in ci.all_methods if not isinstance(m.node, ast.Lambda)}
        for name, m in methods.items():
            for c in m.own_nodes():
                if not (isinstance(c, ast.Call) and isinstance(c.func, ast.Attribute) and norm(c.func.value) == "self" and c.func.attr in methods):
                    continue
                callee = methods[c.func.attr]
                cps = [a.arg for a in callee.node.args.args if a.arg != "self"]
                for i, a in enumerate(c.args):
                    if i >= len(cps) or cps[i] not in pos[c.func.attr]:
                        continue
                    n += 1
                    key = f"{m.qual}:{c.func.attr}({cps[i]}={norm(a)[:30]})"
                    # positions, program counters and widths arrive as int parameters: non-negative on entry
                    # (their own call sites are the obligations of this rule; the public entry points are called
                    # with a clamped lastIndex, which the lastIndex rules of C20 decide)
                    assumed = pos[name] | {x.arg for x in m.node.args.args if x.annotation is not None and norm(x.annotation) == "int"}
                    if _nonneg(a, m, assumed, c):
                        rep.ok(rid, key)
                    else:
                        rep.bad(rid, key, f"{m.qual} passes `{norm(a)[:50]}` as the subject position `{cps[i]}` of {c.func.attr}, and it is not provably >= 0 (no clamp, no test against 0, no range that stops at 0): the matcher's instructions only test positions against the end of the subject, and the host reads a negative index from the end, so text that is not there is matched", f"{m.module.rel}:{c.lineno}")
    if n < 4:
        raise AnalysisError(f"{rid}: only {n} position arguments found in the regex matcher")


# ---- lastIndex is written back under the conditions under which it is read --------------------------------
def _flag_attrs(ctx, ci) -> Dict[str, str]:
    """attribute -> flag letter for `self.X = "g" in flags` in the constructor."""
    out: Dict[str, str] = {}
    init = ctx.tree.find_method(ci, "__init__")
    if init is None:
        return out
    for a in init.own_nodes():
        if isinstance(a, ast.Assign) and len(a.targets) == 1 and isinstance(a.targets[0], ast.Attribute) and norm(a.targets[0].value) == "self" and isinstance(a.value, ast.Compare) and len(a.value.ops) == 1 and isinstance(a.value.ops[0], ast.In) and isinstance(a.value.left, ast.Constant) and isinstance(a.value.left.value, str):
            out[a.targets[0].attr] = a.value.left.value
    return out


def _flag_truth(t: ast.AST, env: Dict[str, bool], f=None, depth: int = 0) -> Optional[bool]:
    """Truth of a condition over the flag attributes under env; None when it also depends on something else.
    A local assigned once from a condition over the flags (`uses_last_index = self._global or self._sticky`)
    stands for that condition."""
    if isinstance(t, ast.Attribute) and norm(t.value) == "self" and t.attr in env:
        return env[t.attr]
    if isinstance(t, ast.Name) and f is not None and depth < 3:
        vals = [a.value for a in f.own_nodes() if isinstance(a, ast.Assign) and any(isinstance(x, ast.Name) and x.id == t.id for x in a.targets)]
        if len(vals) == 1:
            return _flag_truth(vals[0], env, f, depth + 1)
        return None
    if isinstance(t, ast.UnaryOp) and isinstance(t.op, ast.Not):
        v = _flag_truth(t.operand, env, f, depth)
        return None if v is None else not v
    if isinstance(t, ast.BoolOp):
        vals = [_flag_truth(v, env, f, depth) for v in t.values]
        if isinstance(t.op, ast.Or):
            if any(v is True for v in vals):
                return True
            return False if all(v is False for v in vals) else None
        if any(v is False for v in vals):
            return False
        return True if all(v is True for v in vals) else None
    return None


def rule_lastindex_conditions_agree(ctx, rep, rid: str) -> None:
    """exec reads lastIndex as its start position for the global and the sticky flag.  For each of those flags taken
    alone, the failure exit must be able to reset lastIndex to 0 and the success exit to store the end of the match:
    a flag for which lastIndex is read but not written back leaves the regex stuck at its old position."""
    rep.rule(rid, "for every flag under which the matcher's driver reads lastIndex as the start position (g, y), a reset to 0 and an advance to the end of the match exist on paths enabled by that flag alone: lastIndex is never read for a flag it is not written back for", floor=2)
    from ..util import known_conditions

    ci = ctx.tree.mod("regex.regex").classes["RegExp"]
    flags = _flag_attrs(ctx, ci)
    if not flags:
        raise AnalysisError("flag attributes of RegExp not found")
    methods = {m.name: m for m in ci.all_methods if not isinstance(m.node, ast.Lambda)}

    def enabled(node: ast.AST, m: Func, env: Dict[str, bool], depth: int = 0) -> bool:
        """Can node execute under env (conditions that mention nothing but flags decide; others are open)?"""
        for t, pol in known_conditions(node, m.node):
            v = _flag_truth(t, env, m)
            if v is not None and v != pol:
                return False
        if m.name in ("exec", "test") or depth > 2:
            return True
        # a helper: some call site must be enabled as well
        sites = [(c, g) for g in methods.values() for c in g.own_nodes() if isinstance(c, ast.Call) and isinstance(c.func, ast.Attribute) and norm(c.func.value) == "self" and c.func.attr == m.name]
        return any(enabled(c, g, env, depth + 1) for c, g in sites) if sites else True

    # the driver and the helpers it calls: a method that CALLS exec (all matches of a global regex for the string
    # methods) runs another protocol on top of it, and its writes are not exits of a match attempt
    driver = {x for x in ("exec", "test") if x in methods}
    grew = True
    while grew:
        grew = False
        for nm in list(driver):
            for c in methods[nm].own_nodes():
                if isinstance(c, ast.Call) and isinstance(c.func, ast.Attribute) and norm(c.func.value) == "self" and c.func.attr in methods and c.func.attr not in driver:
                    driver.add(c.func.attr)
                    grew = True
    reads, resets, advances = [], [], []
    for m in methods.values():
        if m.name == "__init__" or m.name not in driver:
            continue
        for n in m.own_nodes():
            if isinstance(n, ast.Attribute) and n.attr == "lastIndex" and norm(n.value) == "self":
                par = getattr(n, "_parent", None)
                if isinstance(n.ctx, ast.Load):
                    reads.append((n, m))
                elif isinstance(par, ast.Assign):
                    if isinstance(par.value, ast.Constant) and par.value.value == 0:
                        resets.append((par, m))
                    else:
                        advances.append((par, m))
    if not reads or not resets or not advances:
        raise AnalysisError(f"lastIndex protocol of RegExp not recognised (reads {len(reads)}, resets {len(resets)}, advances {len(advances)})")
    names = sorted(flags)
    n_obl = 0
    for f in names:
        env = {x: (x == f) for x in names}
        if not any(enabled(n, m, env) for n, m in reads):
            continue  # lastIndex is not consulted for this flag
        for kind, sites, what in (("reset", resets, "reset to 0 after a failed match"), ("advance", advances, "moved to the end of a successful match")):
            n_obl += 1
            key = f"RegExp:{flags[f]}:{kind}"
            # the reset that answers an unusable start index is not the failure exit of a match
            # resets that answer an unusable start index (not a position of the string, beyond its end) are not
            # the failure exit of a match
            real = [(a, m) for a, m in sites if not any(pol and "start" in norm(t) and ("None" in norm(t) or "len(" in norm(t)) for t, pol in known_conditions(a, m.node))] or sites
            if any(enabled(a, m, env) for a, m in real):
                rep.ok(rid, key)
            else:
                a, m = real[0]
                rep.bad(rid, key, f"with only the `{flags[f]}` flag set, exec/test read lastIndex as the start position, but no assignment by which lastIndex is {what} can execute under that flag alone (they are guarded by {sorted({norm(t) for a2, m2 in real for t, pol in known_conditions(a2, m2.node) if _flag_truth(t, env, m2) is not None})}): a `{flags[f]}` regex stays at its old lastIndex", f"{m.module.rel}:{a.lineno}")
    if n_obl < 2:
        raise AnalysisError(f"{rid}: lastIndex is read under no flag")


def rule_start_position_inside_subject(ctx, rep, rid: str) -> None:
    """The matcher's instructions test `sp >= len(string)` before they read a character, but the anchors and word
    boundaries of a match that STARTS beyond the end read string[sp] / string[sp - 1] unconditionally.  The driver
    therefore hands the matcher a start position only after comparing it with the length of the subject."""
    rep.rule(rid, "the regex driver starts the matcher at a position taken from lastIndex only on paths where that position was compared with the length of the subject (a start beyond the end is a failed match that resets lastIndex, not a run of the matcher)", floor=1)
    from ..util import atoms, known_conditions

    ci = ctx.tree.mod("regex.regex").classes["RegExp"]
    n = 0
    for m in ci.all_methods:
        if isinstance(m.node, ast.Lambda):
            continue
        for c in m.own_nodes():
            if not (isinstance(c, ast.Call) and isinstance(c.func, ast.Attribute) and c.func.attr in ("match", "search") and len(c.args) >= 2 and isinstance(c.args[1], ast.Name)):
                continue
            p = c.args[1].id
            # does the position come from lastIndex?
            srcs = [a.value for a in m.own_nodes() if isinstance(a, ast.Assign) and any(isinstance(t, ast.Name) and t.id == p for t in a.targets)]
            if not any("lastIndex" in norm(v) or "cp_start" in norm(v) or "_start_position" in norm(v) for v in srcs):
                continue
            n += 1
            key = f"{m.qual}:{norm(c.func)}({p})"
            ats = [(norm(a).replace(" ", ""), pol) for t, pol in known_conditions(c, m.node) for a, pol in atoms(t, pol)]
            subj = norm(c.args[0])
            ok = any((a in (f"{p}>len({subj})", f"len({subj})<{p}") and not pol) or (a in (f"{p}<=len({subj})", f"len({subj})>={p}") and pol) for a, pol in ats)
            if ok:
                rep.ok(rid, key)
            else:
                rep.bad(rid, key, f"{m.qual} starts the matcher at `{p}` (taken from lastIndex) without having compared it with len({subj}): for a sticky regex and a lastIndex beyond the end, `$` in multiline mode, \\\\b and \\\\B read the character at that position and the host raises IndexError", f"{m.module.rel}:{c.lineno}")
    if n < 1:
        raise AnalysisError(f"{rid}: no matcher start taken from lastIndex found")


# ---- the raw matcher knows nothing of lastIndex and the sticky flag ----------------------------------------------
RAW_MATCHER_USERS = {
    "split": "ECMA-262 22.2.6.14 runs a sticky clone of the separator at every position itself and never touches the original's lastIndex",
}


def _prescribed_owner(ctx, f: Func, seen: set) -> Optional[str]:
    """The native of RAW_MATCHER_USERS that f is, or that every caller of the helper f belongs to."""
    if f.name in RAW_MATCHER_USERS:
        return f.name
    if id(f) in seen or len(seen) > 4:
        return None
    callers = {id(cs.func): cs.func for cs in ctx.cg.sites if any(t is f for t in cs.targets)}
    owners = {_prescribed_owner(ctx, g, seen | {id(f)}) for g in callers.values()}
    if callers and None not in owners and len(owners) == 1:
        return owners.pop()
    return None


def rule_driver_not_bypassed(ctx, rep, rid: str) -> None:
    """The regex package has two levels: the matcher (RegexVM.match/search from a given position) and the driver
    (RegExp.exec), which reads lastIndex as the start position for g and y, matches a sticky regex only there, and
    writes lastIndex back.  A native that hands a script's RegExp to the raw matcher gets none of that: the sticky
    flag is ignored and lastIndex is neither consulted nor updated."""
    rep.rule(rid, "outside the regex package the raw matcher (an interpreter made by _create_vm, run with match/search from a chosen position) is used only by the natives for which ECMAScript prescribes its own position loop; every other regex-driven native goes through the driver (exec/test), which implements the g and y protocol", floor=1)
    n = 0
    for f in ctx.tree.funcs:
        if isinstance(f.node, ast.Lambda) or f.module.name.startswith("regex"):
            continue
        raw = [c for c in f.own_nodes() if isinstance(c, ast.Call) and isinstance(c.func, ast.Attribute) and c.func.attr == "_create_vm"]
        if not raw:
            continue
        n += 1
        key = f"{f.qual}:raw-matcher"
        owner = _prescribed_owner(ctx, f, set())
        if owner is not None:
            rep.ok(rid, key, {"prescribed": RAW_MATCHER_USERS[owner], "native": owner, "sites": len(raw)})
        else:
            rep.bad(rid, key, f"{f.qual} runs a script's RegExp on the raw matcher ({short(raw[0], 40)}): the sticky flag is ignored there (it matches at any position) and lastIndex is neither read nor written, which is what the driver RegExp.exec is for", f"{f.module.rel}:{raw[0].lineno}")
    drivers = [c for f in ctx.tree.funcs if not isinstance(f.node, ast.Lambda) and f.parent is not None and f.parent.name == "_make_string_method" for c in f.own_nodes() if isinstance(c, ast.Call) and isinstance(c.func, ast.Attribute) and c.func.attr in ("exec", "match_all")]
    rep.ok(rid, "string-natives:driver-calls", {"count": len(drivers)})
    if n == 0 and not drivers:
        raise AnalysisError(f"{rid}: neither raw-matcher nor driver calls found in the natives")


# ---- the step over an empty match starts from the match, not from where the search started ------------------------
def rule_step_over_relative_to_match(ctx, rep, rid: str) -> None:
    """A loop that collects all matches by SEARCHING from a position p finds each match at some index >= p.  After an
    empty match the next search starts one past the MATCH (AdvanceStringIndex of its end).  `p = end if end > p else
    p + 1` steps relative to where the search started: an empty match found further on (`$`, `\\b`, a lookahead) lies
    beyond p + 1 and is found a second time."""
    rep.rule(rid, "in every loop that searches for matches from a moving position, each new value of the position is computed from the match just found (its index or end), never from the previous position plus a step: an empty match located beyond the search start is stepped over once, not collected twice", floor=1)
    n = 0
    scopes = [f for f in ctx.tree.funcs if not isinstance(f.node, ast.Lambda) and (f.module.name == "regex.regex" or (f.parent is not None and f.parent.name == ctx.facts.family_methods().get("_make_string_method", "_make_string_method")) or (f.parent is not None and f.parent.parent is not None and f.parent.parent.name == ctx.facts.family_methods().get("_make_string_method", "_make_string_method")))]
    for f in scopes:
        for loop in f.own_nodes():
            if not isinstance(loop, ast.While):
                continue
            # locals that may hold the searching entry point: attempt = vm.match if sticky else vm.search
            search_names = {t.id for a in f.own_nodes() if isinstance(a, ast.Assign) and any(isinstance(x, ast.Attribute) and x.attr == "search" for x in ast.walk(a.value)) for t in a.targets if isinstance(t, ast.Name)}
            searches = [c for b in loop.body for c in ast.walk(b) if isinstance(c, ast.Call) and ((isinstance(c.func, ast.Attribute) and c.func.attr == "search") or (isinstance(c.func, ast.Name) and c.func.id in search_names)) and len(c.args) >= 2 and isinstance(c.args[1], ast.Name)]
            if not searches:
                continue
            p = searches[0].args[1].id
            for a in [x for b in loop.body for x in ast.walk(b) if isinstance(x, (ast.Assign, ast.AugAssign))]:
                tg = a.targets if isinstance(a, ast.Assign) else [a.target]
                if not any(isinstance(t, ast.Name) and t.id == p for t in tg):
                    continue
                n += 1
                key = f"{f.qual}:{p} = {short(a.value, 40)}"
                selfrel = isinstance(a, ast.AugAssign) or any(isinstance(x, ast.BinOp) and isinstance(x.op, ast.Add) and ((isinstance(x.left, ast.Name) and x.left.id == p) or (isinstance(x.right, ast.Name) and x.right.id == p)) for x in ast.walk(a.value))
                if selfrel:
                    rep.bad(rid, key, f"{f.qual} searches from `{p}` and then moves it by `{short(a, 50)}`, a step from where the search STARTED: a match can lie further on, and an empty one that does (an end anchor, a word boundary, a lookahead) is then found again - 'ab'.replace(/$/g, 'x') becomes 'abxx'", f"{f.module.rel}:{a.lineno}")
                else:
                    rep.ok(rid, key)
    if n < 1:
        raise AnalysisError(f"{rid}: no position update in a searching loop found")


# ---- a numeric per-class measure is not handed out by a catch-all that straddles a sibling's distinction ----


def _class_walks(ctx, ast_classes):
    """Recursive methods of the regex compiler that judge a pattern node by its class: (method, parameter,
    {class: answer text}, default return or None).  Answer text is the constant the branch returns, or
    `<computed>` when it depends on the node."""
    comp = ctx.tree.class_named("RegexCompiler")
    out = []
    for m in comp.methods.values():
        if isinstance(m.node, ast.Lambda):
            continue
        ps = [p for p in m.params() if p != "self"]
        if not ps:
            continue
        p = ps[0]
        if not any(isinstance(c, ast.Call) and isinstance(c.func, ast.Attribute) and c.func.attr == m.name and norm(c.func.value) == "self" for c in m.own_nodes()):
            continue
        answers: Dict[str, str] = {}
        default = None

        def const_text(v) -> Optional[str]:
            if isinstance(v, ast.Constant):
                return repr(v.value)
            if isinstance(v, ast.Tuple) and all(isinstance(e, ast.Constant) for e in v.elts):
                return "(" + ", ".join(repr(e.value) for e in v.elts) + ")"
            return None

        def branch(stmts, named):
            nonlocal default
            for st in stmts:
                if isinstance(st, ast.If):
                    t = st.test
                    if isinstance(t, ast.Call) and norm(t.func) == "isinstance" and len(t.args) == 2 and norm(t.args[0]) == p:
                        k = t.args[1]
                        cls = [k.id] if isinstance(k, ast.Name) else [e.id for e in getattr(k, "elts", []) if isinstance(e, ast.Name)]
                        rets = [r for b in st.body for r in ast.walk(b) if isinstance(r, ast.Return)]
                        texts = {const_text(r.value) if r.value is not None else "None" for r in rets}
                        ans = texts.pop() if len(texts) == 1 and None not in texts else "<computed>"
                        for c in cls:
                            answers.setdefault(c, ans)
                        branch(st.orelse, named)
                        continue
                if isinstance(st, ast.Return) and st.value is not None:
                    default = st

        branch(m.body(), set())
        if len([c for c in answers if c in ast_classes]) >= 3:
            out.append((m, p, answers, default))
    return out


def rule_numeric_catch_all(ctx, rep, rid: str) -> None:
    """The regex compiler has several small recursive walks that judge a pattern node by its class.  One that names
    every class is a statement of how the classes differ (a back-reference may match nothing, a character always
    consumes one).  A sibling that assigns a NUMBER (a width, a count) through its catch-all gives that number to
    every class it does not name; if the fully explicit sibling tells two of those classes apart, the catch-all
    contradicts it for one of them."""
    rep.rule(rid, "a class-by-class walk of the regex compiler whose catch-all returns a numeric constant (a width, a count) covers only node classes that every fully explicit sibling walk answers alike; classes a sibling tells apart are named", floor=2)
    par = ctx.tree.mod("regex.parser")
    ast_classes = [name for name, ci in par.classes.items() if any("dataclass" in norm(d) for d in ci.node.decorator_list)]
    if len(ast_classes) < 10:
        raise AnalysisError(f"{rid}: only {len(ast_classes)} regex AST classes found")
    walks = _class_walks(ctx, ast_classes)
    explicit = [(m, a) for m, p, a, d in walks if all(c in a for c in ast_classes)]
    if len(walks) < 2 or not explicit:
        raise AnalysisError(f"{rid}: {len(walks)} class walks, {len(explicit)} fully explicit (expected the advance / capture analyses)")

    def numeric(v) -> bool:
        if isinstance(v, ast.Constant):
            return isinstance(v.value, (int, float)) and not isinstance(v.value, bool)
        return isinstance(v, ast.Tuple) and v.elts and all(numeric(e) for e in v.elts)

    for m, p, answers, default in walks:
        key = f"{m.qual}:catch-all"
        bucket = [c for c in ast_classes if c not in answers]
        if default is None or not bucket or not numeric(default.value):
            rep.ok(rid, key, {"named": sorted(c for c in answers if c in ast_classes), "catch_all": None if default is None else short(default, 30)})
            continue
        clash = None
        for e, ea in explicit:
            if e is m:
                continue
            groups: Dict[str, List[str]] = {}
            for c in bucket:
                if ea[c] != "<computed>":
                    groups.setdefault(ea[c], []).append(c)
            if len(groups) > 1:
                clash = (e, groups)
                break
        if clash is None:
            rep.ok(rid, key, {"catch_all": short(default, 30), "covers": bucket})
        else:
            e, groups = clash
            parts = "; ".join(f"{'/'.join(cs)} -> {a}" for a, cs in sorted(groups.items()))
            rep.bad(rid, key, f"{m.qual} gives `{short(default.value, 20)}` to every class it does not name ({', '.join(bucket)}), but {e.name} tells them apart ({parts}): for one of the groups the number is wrong (a back-reference is not one character wide: it may match nothing or many)", f"{m.module.rel}:{default.lineno}")


# ---- handlers of one opcode family agree on case forms; line terminators are the ECMAScript set ----------


def _handler_bodies(ctx) -> Dict[str, List[Tuple[Func, ast.If]]]:
    """opcode -> [(matcher function, the `if opcode == Op.X` branch)]"""
    out: Dict[str, List[Tuple[Func, ast.If]]] = {}
    for f, loop in ctx.facts.matcher_loops():
        for n in ast.walk(loop):
            if isinstance(n, ast.If) and isinstance(n.test, ast.Compare) and isinstance(n.test.left, ast.Name) and n.test.left.id == "opcode":
                o = opcode_member(n.test.comparators[0], OPENUM)
                if o:
                    out.setdefault(o, []).append((f, n))
    return out


def rule_negated_handlers_fold_case_alike(ctx, rep, rid: str) -> None:
    """A character class and its negation (RANGE / RANGE_NEG, and any other X / X_NEG pair of the matcher) are the same
    membership test with the outcome inverted.  Under the i flag the positive handler asks about both case forms of
    the subject character; a negated handler that asks about one of them lets through characters whose other form is in
    the class: /[^A]/i matches 'a'."""
    rep.rule(rid, "for every pair of matcher opcodes X / X_NEG, the negated handler applies the same case mappings to the subject character (lower, upper, casefold) as the positive one", floor=1)
    hb = _handler_bodies(ctx)
    n = 0

    def forms(branch: ast.If) -> Set[str]:
        return {c.func.attr for b in branch.body for c in ast.walk(b) if isinstance(c, ast.Call) and isinstance(c.func, ast.Attribute) and c.func.attr in ("lower", "upper", "casefold", "swapcase")}

    for op, lst in sorted(hb.items()):
        pos = op[: -len("_NEG")] if op.endswith("_NEG") else None
        if pos is None or pos not in hb:
            continue
        for f, br in lst:
            mates = [b for g, b in hb[pos] if g is f]
            if not mates:
                continue
            n += 1
            key = f"{f.qual}:{pos}/{op}:case-forms"
            a, b = forms(mates[0]), forms(br)
            if a == b:
                rep.ok(rid, key, {"forms": sorted(a)})
            else:
                rep.bad(rid, key, f"{f.qual}: the handler of {pos} maps the subject character with {sorted(a)} and the handler of {op} with {sorted(b)}: under the i flag the negated class lets a character through when only its {', '.join(sorted(a - b)) or 'other'} form is in the class (/[^A]/i matches 'a')", f"{f.module.rel}:{br.lineno}")
    if n == 0:
        raise AnalysisError(f"{rid}: no X / X_NEG pair of matcher opcodes found")


def rule_line_terminators(ctx, rep, rid: str) -> None:
    """LineTerminator is <LF>, <CR>, <LS>, <PS>.  The dot does not match any of them and, under the m flag, ^ holds
    after any of them (the one that ends the subject included) and $ before any of them.  A matcher that compares with
    "\\n" alone lets `.` match a carriage return and does not see the lines of a CR- or LS-separated text."""
    rep.rule(rid, "in the matcher, the handlers of the dot and of the multiline anchors test the subject character for membership in a set that holds all four line terminators (never `== '\\n'` alone), and the multiline ^ does not refuse the end of the subject", floor=3)
    hb = _handler_bodies(ctx)
    want = {"\n", "\r", "\u2028", "\u2029"}
    n = 0
    for op in ("DOT", "LINE_START_M", "LINE_END_M"):
        for f, br in hb.get(op, []):
            n += 1
            key = f"{f.qual}:{op}:line-terminators"
            bad = None
            for c in [x for b in br.body for x in ast.walk(b) if isinstance(x, ast.Compare)]:
                for o, k in zip(c.ops, c.comparators):
                    if isinstance(o, (ast.Eq, ast.NotEq)) and isinstance(k, ast.Constant) and k.value == "\n":
                        bad = f"`{short(c, 50)}` knows only \\n"
                    if isinstance(o, (ast.In, ast.NotIn)):
                        vals = None
                        if isinstance(k, ast.Constant) and isinstance(k.value, str):
                            vals = set(k.value)
                        elif isinstance(k, (ast.Tuple, ast.Set, ast.List)):
                            vals = {e.value for e in k.elts if isinstance(e, ast.Constant)}
                        elif isinstance(k, ast.Name):
                            for s_ in f.module.tree.body:
                                if isinstance(s_, ast.Assign) and norm(s_.targets[0]) == k.id:
                                    v = s_.value
                                    if isinstance(v, ast.Call) and v.args:
                                        v = v.args[0]
                                    if isinstance(v, ast.Constant) and isinstance(v.value, str):
                                        vals = set(v.value)
                                    elif isinstance(v, (ast.Tuple, ast.Set, ast.List)):
                                        vals = {e.value for e in v.elts if isinstance(e, ast.Constant)}
                        if vals is not None and not want <= vals and "\n" in vals:
                            bad = f"`{short(c, 50)}` tests a set without {sorted(repr(x) for x in want - vals)}"
            if op == "LINE_START_M" and bad is None:
                for c in [x for b in br.body for x in ast.walk(b) if isinstance(x, ast.Compare)]:
                    if "len(string)" in norm(c) and any(isinstance(o, (ast.GtE, ast.Gt, ast.Eq)) for o in c.ops) and "sp" in norm(c.left):
                        bad = f"`{short(c, 40)}` refuses the end of the subject, where a line starts when the subject ends in a line terminator"
            if bad is None:
                rep.ok(rid, key)
            else:
                rep.bad(rid, key, f"{f.qual}, handler of {op}: {bad} (the dot must not match \\r, \\u2028, \\u2029; /^b/m matches in 'a\\rb'; 'a\\n'.replace(/^/mg, '>') is '>a\\n>')", f"{f.module.rel}:{br.lineno}")
    if n < 3:
        raise AnalysisError(f"{rid}: handlers of DOT / LINE_START_M / LINE_END_M not all found ({n})")


# ---- the quantifier emitters: where captures are reset and which repetition may be refused -------------------


def rule_quantifier_emitters(ctx, rep, rid: str) -> None:
    """RepeatMatcher (ECMAScript 22.2.2.3.1): every repetition starts with the captures of the atom undefined; declining
    a repetition leaves the captures as the previous repetitions left them; a repetition that matches nothing is
    refused only once the minimum has been reached.  In the emitters that means: (a) the capture reset belongs to the
    branch that matches the body, after the branch point - a reset in front of the split also wipes the captures of
    the branch that skips; (b) every unrolled copy of the body is preceded by a reset; (c) a body bracketed by
    SET_POS/CHECK_ADVANCE is one the loop may decline (a split in front of it), never the mandatory first one."""
    rep.rule(rid, "in the regex compiler's quantifier emitters: no capture reset is emitted in front of the split that guards a body; every unrolled copy of a body in a `for` loop is preceded by a capture reset; a CHECK_ADVANCE follows only a body that a split in front of it makes optional", floor=4)
    comp = ctx.tree.class_named("RegexCompiler")
    n = 0

    def kind(st: ast.stmt) -> List[str]:
        out = []
        for c in ast.walk(st):
            if not isinstance(c, ast.Call):
                continue
            fn = norm(c.func)
            if fn == "self._emit_capture_reset":
                out.append("reset")
            elif fn == "self._emit" and c.args and norm(c.args[0]).startswith("Op.SPLIT"):
                out.append("split")
            elif fn == "self._emit" and c.args and norm(c.args[0]) == "Op.CHECK_ADVANCE":
                out.append("check")
            elif fn == "self._compile_node" and c.args and norm(c.args[0]) == "body":
                out.append("body")
        return out

    def blocks(stmts: List[ast.stmt]):
        yield stmts
        for st in stmts:
            for field in ("body", "orelse", "finalbody"):
                sub = getattr(st, field, None)
                if isinstance(sub, list) and sub and isinstance(sub[0], ast.stmt):
                    yield from blocks(sub)

    for m in comp.methods.values():
        if isinstance(m.node, ast.Lambda) or "body" not in m.params():
            continue
        for blk in blocks(m.body()):
            # events of this block in order; a nested if/else that only chooses the KIND of split counts as the split
            ev: List[Tuple[str, int]] = []
            for st in blk:
                if isinstance(st, (ast.For, ast.While)):
                    continue
                ks = kind(st)
                if isinstance(st, ast.If):
                    ks = ["split"] if ks and set(ks) == {"split"} else []
                ev.extend((k, st.lineno) for k in ks)
            names = [k for k, _ in ev]
            if "body" in names:
                n += 1
                i = names.index("body")
                key = f"{m.qual}:block@{blk[0].lineno}"
                problems = []
                if "split" in names[:i]:
                    j = names.index("split")
                    if "reset" in names[:j]:
                        problems.append((ev[names.index('reset')][1], "the capture reset is emitted in front of the split: the branch that skips the body loses what an earlier copy of it captured (/(?:(a)|b){1,2}/ on \"a\" captures nothing)"))
                if "check" in names[i:] and "split" not in names[:i]:
                    problems.append((ev[i][1], "the body is bracketed by SET_POS/CHECK_ADVANCE without a split in front of it: the repetition that has to happen is refused when it matches nothing (/(a*)b\\1+/ does not match \"b\")"))
                if problems:
                    for line, why in problems:
                        rep.bad(rid, key, f"{m.qual}: {why}", f"{m.module.rel}:{line}")
                else:
                    rep.ok(rid, key)
        for loop in m.own_nodes():
            if isinstance(loop, ast.For) and isinstance(loop.iter, ast.Call) and norm(loop.iter.func) == "range":
                ks = [k for st in loop.body for k in kind(st)]
                if "body" in ks:
                    n += 1
                    key = f"{m.qual}:unrolled@{loop.lineno}"
                    if "reset" in ks[: ks.index("body")]:
                        rep.ok(rid, key)
                    else:
                        rep.bad(rid, key, f"{m.qual} unrolls the body `{short(loop.iter, 30)}` times without resetting its captures between the copies: /(?:(a)|b){{2}}/ on \"ab\" still reports the \"a\" of the first repetition", f"{m.module.rel}:{loop.lineno}")
    if n < 4:
        raise AnalysisError(f"{rid}: fewer than four body emissions found in the quantifier emitters ({n})")


# ---- a scan over all matches leaves lastIndex at 0 on every way out -----------------------------------------


def rule_scan_leaves_lastindex_zero(ctx, rep, rid: str) -> None:
    """String.prototype.match / replace / replaceAll with a global regex run RegExpExec until it fails, and a failed
    RegExpExec sets lastIndex to 0: whatever the scan found, the regex object ends with lastIndex 0.  A scan that
    drives the matcher itself (one matcher for the whole subject) has to write that 0 on every exit - the early exit
    taken when an attempt fails as much as the one at the end of the subject."""
    rep.rule(rid, "in the regex facade, every return of a method that collects all matches in a loop is either taken on the failure of the facade's own exec (which resets lastIndex) or directly preceded by `self.lastIndex = 0`", floor=1)
    from .limits import _regex_classes

    facade, js = _regex_classes(ctx)
    n = 0
    for m in facade.methods.values():
        if isinstance(m.node, ast.Lambda):
            continue
        loops = [l for l in m.own_nodes() if isinstance(l, ast.While)]
        collects = any(isinstance(c, ast.Call) and isinstance(c.func, ast.Attribute) and c.func.attr == "append" for l in loops for c in ast.walk(l))
        attempts = any(isinstance(c, ast.Call) and ((isinstance(c.func, ast.Attribute) and c.func.attr in ("exec", "search", "match", "_run", "test")) or (isinstance(c.func, ast.Name))) for l in loops for c in ast.walk(l))
        if not (loops and collects and attempts):
            continue
        from_exec = {a.targets[0].id for a in m.own_nodes() if isinstance(a, ast.Assign) and len(a.targets) == 1 and isinstance(a.targets[0], ast.Name) and isinstance(a.value, ast.Call) and norm(a.value.func) in ("self.exec", "self.test")}
        for r in [x for x in m.own_nodes() if isinstance(x, ast.Return)]:
            n += 1
            key = f"{m.qual}:return@{'end' if getattr(r, '_parent', None) is m.node else 'loop'}:{short(r, 30)}"
            par = getattr(r, "_parent", None)
            ok = False
            how = None
            if isinstance(par, ast.If) and r in par.body:
                t = norm(par.test)
                if any(t in (f"{v} is None", f"not {v}", f"{v} is NULL") for v in from_exec):
                    ok, how = True, "failed exec resets lastIndex"
            if not ok:
                for field in ("body", "orelse", "finalbody"):
                    blk = getattr(par, field, None)
                    if isinstance(blk, list) and r in blk:
                        i = blk.index(r)
                        prev = blk[i - 1] if i > 0 else None
                        if isinstance(prev, ast.Assign) and any(norm(t_) == "self.lastIndex" for t_ in prev.targets) and isinstance(prev.value, ast.Constant) and prev.value.value == 0:
                            ok, how = True, "lastIndex = 0 written before the return"
            if ok:
                rep.ok(rid, key, {"how": how})
            else:
                rep.bad(rid, key, f"{m.qual} returns (line {r.lineno}) from its scan over all matches without lastIndex having been set to 0 on that path: after `re.test(s); s.replace(re, x)` with a global regex, lastIndex keeps the value the earlier test left (the scan no longer goes through the facade's exec, whose failure reset it), so the next `re.test(s)` starts in the middle of the subject", f"{m.module.rel}:{r.lineno}")
    if n == 0:
        rep.ok(rid, "no-scan-method", {"note": "the facade has no method that collects all matches; the string natives loop over exec themselves"})


def rule_fresh_captures_per_attempt(ctx, rep, rid: str) -> None:
    """The matcher records captures by writing into the lists it was given; backtracking swaps snapshots in but does not
    undo writes to the list object the run STARTED with.  A loop that tries the matcher at one position after another
    (the start positions of a lookbehind) therefore hands every attempt its own copy: a copy made once before the loop
    carries what a failed attempt wrote into the next one, and a group that did not take part in the match reports
    text."""
    rep.rule(rid, "inside a loop that runs the matcher once per candidate position, the capture lists passed to the run are copied inside the loop (an inline copy expression, or a local assigned in the loop body), never a parameter or a local prepared before the loop", floor=1)
    n = 0
    for f, _loop in ctx.facts.matcher_loops():
        cls = f.cls
        if cls is None:
            continue
        # does this matcher write into the lists it was given (captures[g][k] = ..)?  A copy-on-write matcher replaces
        # the outer list before it stores, and may share it freely
        in_place = any(isinstance(a, ast.Assign) and any(isinstance(t, ast.Subscript) and isinstance(t.value, ast.Subscript) and norm(t.value.value) == "captures" for t in a.targets) for a in f.own_nodes())
        if not in_place:
            continue
        for m in cls.all_methods:
            if isinstance(m.node, ast.Lambda) or m is f:
                continue
            for loop in m.own_nodes():
                if not isinstance(loop, (ast.For, ast.While)):
                    continue
                for c in ast.walk(loop):
                    if not (isinstance(c, ast.Call) and isinstance(c.func, ast.Attribute) and norm(c.func.value) == "self" and c.func.attr == f.name):
                        continue
                    ps = [p for p in f.params() if p != "self"]
                    if "captures" not in ps:
                        continue
                    i = ps.index("captures")
                    arg = c.args[i] if i < len(c.args) else next((k.value for k in c.keywords if k.arg == "captures"), None)
                    if arg is None:
                        continue
                    n += 1
                    key = f"{m.qual}:{f.name}(captures={short(arg, 30)})"
                    fresh = isinstance(arg, (ast.ListComp, ast.Call)) or (isinstance(arg, ast.Name) and any(isinstance(a, ast.Assign) and any(isinstance(t, ast.Name) and t.id == arg.id for t in a.targets) for b in loop.body for a in ast.walk(b)))
                    if fresh:
                        rep.ok(rid, key)
                    else:
                        rep.bad(rid, key, f"{m.qual} runs the matcher once per candidate position and gives every run the same capture lists `{norm(arg)}`, prepared before the loop: what a failed attempt recorded is still there when the next position is tried, so a group that takes no part in the match reports text (/(?<=(c)x|b)c/ on \"bc\" captures \"c\")", f"{m.module.rel}:{c.lineno}")
    if n == 0:
        rep.ok(rid, "no-position-loop", {"note": "no loop runs the matcher once per candidate position"})
