"""Front-end rules: C13-R1 (reference targets), C13-R2 (delimiter scans), C13-R4 (duplicated grammar paths)."""

from __future__ import annotations

import ast
from typing import Dict, List, Optional, Set, Tuple

from ..core import AnalysisError, Func, const_str, norm, opcode_member, short, walk_no_nested
from ..util import guards_of, raises_in


def _validator_helpers(ctx) -> Set[str]:
    """Parser methods whose body is `if not isinstance(x, (Identifier, MemberExpression)): raise ...`."""
    out = set()
    for f in ctx.tree.funcs:
        if f.module.name != "parser":
            continue
        for n in f.own_nodes():
            if isinstance(n, ast.If):
                t = norm(n.test)
                if t.startswith("not isinstance(") and "Identifier" in t and "MemberExpression" in t and any(isinstance(s, ast.Raise) for s in n.body):
                    ps = [p for p in f.params() if p != "self"]
                    if ps and ps[0] in t:
                        out.add(f.name)
    return out


def _target_guard(ctx, f: Func, var: str, before: int) -> Optional[str]:
    """A reference check on `var` before line `before`: inline isinstance test or a call of a validating helper."""
    helpers = _validator_helpers(ctx)
    for n in f.own_nodes():
        if getattr(n, "lineno", 10**9) > before:
            continue
        if isinstance(n, ast.If):
            t = norm(n.test)
            if "isinstance" in t and var in t and "Identifier" in t and "MemberExpression" in t and "not " in t and any(isinstance(s, ast.Raise) for s in n.body):
                return f"line {n.lineno}: {t}"
        if isinstance(n, ast.Call) and isinstance(n.func, ast.Attribute) and norm(n.func.value) == "self" and n.func.attr in helpers:
            if any(isinstance(a, ast.Name) and a.id == var for a in n.args):
                return f"line {n.lineno}: {norm(n)}"
    return None


def rule_reference_targets(ctx, rep, rid: str) -> None:
    rep.rule(rid, "every assignment, update and for-in/of target the parser builds from an expression is checked to be an identifier or member reference, with a JSSyntaxError otherwise", floor=4)
    par = ctx.tree.mod("parser")
    specs = {"AssignmentExpression": 1, "UpdateExpression": 1, "ForInStatement": 0, "ForOfStatement": 0}
    for f in ctx.tree.funcs:
        if f.module is not par:
            continue
        for n in f.own_nodes():
            if isinstance(n, ast.Call) and isinstance(n.func, ast.Name) and n.func.id in specs:
                idx = specs[n.func.id]
                if len(n.args) <= idx:
                    continue
                tgt = n.args[idx]
                key = f"{f.qual}:{n.func.id}({short(tgt, 30)})"
                loc = f"{par.rel}:{n.lineno}"
                if not isinstance(tgt, ast.Name):
                    rep.ok(rid, key, {"target": norm(tgt)})
                    continue
                # target built as a declaration is fine (for (var x in ...))
                assigned = [a for a in f.own_nodes() if isinstance(a, ast.Assign) and any(isinstance(t, ast.Name) and t.id == tgt.id for t in a.targets)]
                from_expr = [a for a in assigned if isinstance(a.value, ast.Call) and ("_parse_" in norm(a.value.func)) and "declaration" not in norm(a.value.func).lower() and "VariableDeclaration" not in norm(a.value)]
                is_param = tgt.id in f.params()
                if not from_expr and not is_param and assigned:
                    rep.ok(rid, key, {"target": "declaration"})
                    continue
                g = _target_guard(ctx, f, tgt.id, n.lineno)
                if g:
                    rep.ok(rid, key, {"guard": g})
                else:
                    rep.bad(rid, key, f"{f.name} builds {n.func.id} with target `{tgt.id}` taken from an arbitrary expression without checking that it is an Identifier or MemberExpression: `1 = 2`, `x++ = 2`, `for (1 in o)` are accepted and run with some other meaning", loc)


def _scan_closing(n: ast.While) -> Optional[str]:
    closing: Optional[str] = None
    aliases = {"self._current()"}
    for a in ast.walk(n):
        if isinstance(a, ast.Assign) and norm(a.value) == "self._current()" and isinstance(a.targets[0], ast.Name):
            aliases.add(a.targets[0].id)
    for c in ast.walk(n.test):
        if isinstance(c, ast.Compare) and norm(c.left) in aliases and isinstance(c.ops[0], ast.NotEq):
            closing = norm(c.comparators[0])
    for b in ast.walk(n):
        if isinstance(b, ast.Break):
            # the break must belong to this loop
            p = getattr(b, "_parent", None)
            while p is not None and not isinstance(p, (ast.While, ast.For)):
                p = getattr(p, "_parent", None)
            if p is not n:
                continue
            for tst, pol in guards_of(b, n):
                for c in ast.walk(tst):
                    if isinstance(c, ast.Compare) and norm(c.left) in aliases and isinstance(c.ops[0], ast.Eq) and pol:
                        closing = norm(c.comparators[0])
    if closing in ("'\\n'", '"\\n"'):
        return None
    return closing


def _scan_rejects_eof(n: ast.While) -> bool:
    if n.orelse and raises_in(n.orelse, "JSSyntaxError"):
        return True
    parent = getattr(n, "_parent", None)
    for field in ("body", "orelse"):
        blk = getattr(parent, field, None)
        if isinstance(blk, list) and n in blk:
            for later in blk[blk.index(n) + 1 : blk.index(n) + 3]:
                if isinstance(later, ast.If) and raises_in(later.body, "JSSyntaxError") and any(w in norm(later.test) for w in ("self._current()", "self.pos", "self.length", "terminated", "closed")):
                    return True
    return False


def rule_delimiter_scans(ctx, rep, rid: str) -> None:
    rep.rule(rid, "every lexer loop that scans for a closing delimiter raises JSSyntaxError when the input ends first", floor=3)
    lex = ctx.tree.mod("lexer")
    for f in ctx.tree.funcs:
        if f.module is not lex:
            continue
        for n in f.own_nodes():
            if not isinstance(n, ast.While):
                continue
            closing = _scan_closing(n)
            if closing is None:
                continue
            key = f"{f.qual}:scan-until {closing}"
            loc = f"{lex.rel}:{n.lineno}"
            ok = _scan_rejects_eof(n)
            if not ok:
                # nested inside another delimiter scan that rejects EOF: running out of input there ends the outer scan too
                p = getattr(n, "_parent", None)
                while p is not None and p is not f.node:
                    if isinstance(p, ast.While) and _scan_closing(p) is not None and _scan_rejects_eof(p):
                        ok = True
                    p = getattr(p, "_parent", None)
            if ok:
                rep.ok(rid, key)
            else:
                rep.bad(rid, key, f"{f.name}: the scan for the closing {closing} ends silently when the input runs out: unterminated input is accepted and run with some other meaning", loc)


def _body_texts(f: Func) -> List[str]:
    out = []
    for s in f.body():
        if isinstance(s, ast.Expr) and isinstance(s.value, ast.Constant) and isinstance(s.value.value, str):
            continue
        out.append(norm(s))
    return out


def rule_duplicated_paths(ctx, rep, rid: str) -> None:
    rep.rule(rid, "the duplicated grammar paths stay the same grammar: statement dispatch inside/outside blocks, the two precedence-climbing loops, and expression continuation after a parenthesised primary (postfix, binary, conditional, assignment, sequence)", floor=3)
    t = ctx.tree
    a, b = t.method("Parser", "_parse_statement"), t.method("Parser", "_parse_non_block_statement")
    ta = [x for x in _body_texts(a) if "LBRACE" not in x]
    tb = _body_texts(b)
    if ta == tb:
        rep.ok(rid, "statement-dispatch", {"statements": len(ta)})
    else:
        diff = [x for x in ta if x not in tb] + [x for x in tb if x not in ta]
        rep.bad(rid, "statement-dispatch", f"_parse_statement and _parse_non_block_statement differ beyond the block case: {short(ast.parse(diff[0]).body[0], 80) if diff else 'order'}: a statement means something else inside a block than outside", b.loc)
    a, b = t.method("Parser", "_parse_binary_expression"), t.method("Parser", "_continue_binary_expression")

    def loop_text(f):
        for n in f.own_nodes():
            if isinstance(n, ast.While):
                return [norm(s) for s in n.body]
        return []

    if loop_text(a) and loop_text(a) == loop_text(b):
        rep.ok(rid, "binary-loop", {"statements": len(loop_text(a))})
    else:
        rep.bad(rid, "binary-loop", "the precedence-climbing loops of _parse_binary_expression and _continue_binary_expression differ: an expression that starts with a parenthesis is parsed with different precedence/associativity", b.loc)
    # continuation after a parenthesised primary
    cont = t.method("Parser", "_continue_parsing_expression")
    # what is applied to the operand after each inner `)`: the continuation calls of the paren-closing loop
    prim = t.method("Parser", "_parse_primary_expression")
    chain = []
    for n in prim.own_nodes():
        if isinstance(n, ast.For) and any("RPAREN" in norm(x) for x in n.body):
            for x in ast.walk(n):
                if isinstance(x, ast.Assign) and isinstance(x.value, ast.Call) and isinstance(x.value.func, ast.Attribute) and norm(x.value.func.value) == "self" and len(x.value.args) >= 1 and norm(x.value.args[0]) == norm(x.targets[0]):
                    m = t.find_method(prim.cls, x.value.func.attr)
                    if m is not None:
                        chain.append(m)
    if not chain:
        raise AnalysisError("continuation after a parenthesised primary not found")
    txt = " ".join(" ".join(_body_texts(m)) for m in _continuation_closure(t, prim.cls, chain))
    order_ok = True
    names = [m.name for m in chain]
    if any("postfix" in nm for nm in names) and cont.name in names:
        order_ok = min(i for i, nm in enumerate(names) if "postfix" in nm) < names.index(cont.name)
    levels = {
        "postfix": ("_parse_postfix" in txt or "_continue_postfix" in txt or "TokenType.DOT" in txt),
        "binary": "_continue_binary_expression" in txt,
        "conditional": "TokenType.QUESTION" in txt,
        "assignment": "TokenType.ASSIGN" in txt,
        "sequence": "TokenType.COMMA" in txt,
    }
    for lvl, present in levels.items():
        key = f"_continue_parsing_expression:{lvl}"
        if present:
            rep.ok(rid, key)
        else:
            rep.bad(rid, key, f"after an inner `)` the parser does not continue at the {lvl} level ({' then '.join(names)}): `((a).b)`, `((f)(1))`, `((a)[1])` are rejected although `(a).b` parses (redundant parentheses change the outcome)", cont.loc)
    if order_ok:
        rep.ok(rid, "paren-continuation:order")
    else:
        rep.bad(rid, "paren-continuation:order", "after an inner `)` operators are applied before member access/calls: `((a) + b.c)` style regrouping", prim.loc)


def reference_targets_ok(ctx) -> bool:
    from ..report import Report

    r = Report("tmp", "quick")
    rule_reference_targets(ctx, r, "X")
    return not r.findings


def try_shape_ok(ctx) -> bool:
    """The parser refuses a try statement that has neither catch nor finally."""
    f = ctx.tree.method("Parser", "_parse_try_statement")
    for n in f.own_nodes():
        if isinstance(n, ast.If) and norm(n.test) == "handler is None and finalizer is None" and any(isinstance(s, ast.Raise) for s in n.body):
            # and the constructor receives exactly these variables
            for c in f.own_nodes():
                if isinstance(c, ast.Call) and isinstance(c.func, ast.Name) and c.func.id == "TryStatement" and [norm(a) for a in c.args[1:3]] == ["handler", "finalizer"]:
                    return True
    return False


# ---- an opening delimiter is consumed before the search for the closing one starts -------------------------
def _opener_of(conds, cur: Set[str], peek: Set[str]) -> Optional[str]:
    """The characters the conditions establish at the cursor: `ch == "/" and self._peek() == "*"` -> "/*"
    (also through `if ch != "/": break` earlier in the block and aliases of the two accessors)."""
    from ..util import atoms

    c1 = c2 = None
    for t, pol0 in conds:
        for a, pol in atoms(t, pol0):
            if not (isinstance(a, ast.Compare) and len(a.ops) == 1 and isinstance(a.comparators[0], ast.Constant) and isinstance(a.comparators[0].value, str) and len(a.comparators[0].value) == 1):
                continue
            if not ((isinstance(a.ops[0], ast.Eq) and pol) or (isinstance(a.ops[0], ast.NotEq) and not pol)):
                continue
            l = norm(a.left)
            if l in cur:
                c1 = a.comparators[0].value
            elif l in peek:
                c2 = a.comparators[0].value
    if c1 is None:
        return None
    return c1 + (c2 or "")


def rule_delimiters_do_not_overlap(ctx, rep, rid: str) -> None:
    """`/*/` is not a complete comment: the `*` of the opener must not serve as the `*` of the terminator.  Where a
    scanner branch is entered on a known opening delimiter and then looks for the closing one (a loop, or
    str.find from an offset), the opener has to be consumed, or skipped by the search offset, in full — unless no
    suffix of what is left of it can begin the terminator."""
    rep.rule(rid, "in the lexer, the search for a closing delimiter starts after the whole opening delimiter that the branch tested for (the cursor advances, or the offset of str.find, cover all its characters), unless no remaining suffix of the opener is a prefix of the terminator: otherwise `/*/` is taken for a complete comment and what follows it for code", floor=1)
    lex = ctx.tree.mod("lexer")
    n = 0
    for f in ctx.tree.funcs:
        if f.module is not lex or isinstance(f.node, ast.Lambda):
            continue
        from ..util import known_conditions

        cur = {"self._current()"} | {a.targets[0].id for a in f.own_nodes() if isinstance(a, ast.Assign) and len(a.targets) == 1 and isinstance(a.targets[0], ast.Name) and (norm(a.value) == "self._current()" or norm(a.value).endswith("[self.pos]"))}
        peek = {"self._peek()", "self._peek(1)"} | {a.targets[0].id for a in f.own_nodes() if isinstance(a, ast.Assign) and len(a.targets) == 1 and isinstance(a.targets[0], ast.Name) and norm(a.value) in ("self._peek()", "self._peek(1)")}
        for br in f.own_nodes():
            if not isinstance(br, ast.If) or not br.body:
                continue
            if not any(isinstance(x, ast.Compare) and norm(x.left) in (cur | peek) for x in ast.walk(br.test)):
                continue
            opener = _opener_of(known_conditions(br.body[0], f.node), cur, peek)
            if opener is None:
                continue
            adv = 0
            for s in br.body:
                if isinstance(s, ast.Expr) and isinstance(s.value, ast.Call) and norm(s.value.func) == "self._advance":
                    adv += 1
                    continue
                if isinstance(s, ast.AugAssign) and norm(s.target) == "self.pos" and isinstance(s.op, ast.Add) and isinstance(s.value, ast.Constant) and isinstance(s.value.value, int):
                    adv += s.value.value
                    continue
                # the first statement that searches
                term = None
                extra = 0
                where = s
                if isinstance(s, ast.While):
                    term = _terminator(s)
                else:
                    for c in ast.walk(s):
                        if isinstance(c, ast.Call) and isinstance(c.func, ast.Attribute) and c.func.attr in ("find", "index") and c.args and isinstance(c.args[0], ast.Constant) and isinstance(c.args[0].value, str):
                            term = c.args[0].value
                            where = c
                            if len(c.args) > 1:
                                st = norm(c.args[1]).replace(" ", "")
                                if st == "self.pos":
                                    extra = 0
                                elif st.startswith("self.pos+") and st[9:].isdigit():
                                    extra = int(st[9:])
                                else:
                                    term = None
                            else:
                                term = None
                if term is None:
                    break
                n += 1
                consumed = adv + extra
                key = f"{f.qual}:{opener!r}..{term!r}"
                overlap = [i for i in range(consumed, len(opener)) if term.startswith(opener[i:])]
                if overlap:
                    rep.bad(rid, key, f"{f.qual} enters this branch on the opening delimiter {opener!r} and starts looking for the closing {term!r} after only {consumed} of its {len(opener)} characters: {opener[consumed:]!r} can serve as the beginning of the terminator, so {(opener + term[len(opener) - overlap[0]:])!r} is taken for a complete token and the text after it for code", f"{f.module.rel}:{getattr(where, 'lineno', br.lineno)}")
                else:
                    rep.ok(rid, key, {"opener_characters_passed": consumed})
                break
    if n < 1:
        raise AnalysisError(f"{rid}: no delimiter search after a tested opener found in the lexer")


def _terminator(loop: ast.While) -> Optional[str]:
    """The terminator a scanning loop looks for: from its test (`!= "\\n"`) or from the guard of its break
    (`self._current() == "*" and self._peek() == "/"`)."""
    for c in ast.walk(loop.test):
        if isinstance(c, ast.Compare) and len(c.ops) == 1 and isinstance(c.ops[0], ast.NotEq) and isinstance(c.comparators[0], ast.Constant) and isinstance(c.comparators[0].value, str) and norm(c.left) in ("self._current()",):
            return c.comparators[0].value
    for b in ast.walk(loop):
        if isinstance(b, ast.Break):
            for tst, pol in guards_of(b, loop):
                if pol:
                    o = _opener_of([(tst, True)], {"self._current()"}, {"self._peek()", "self._peek(1)"})
                    if o:
                        return o
    return None


# ---- parsing and compiling are part of the evaluation ------------------------------------------------------
def _front_end_runs(ctx) -> List[Tuple[Func, ast.Call, str]]:
    """Call sites, outside the front end itself, that run the parser or the compiler on script text:
    `Parser(..).parse()`, `X.parse()` / `X.compile(..)` on an object built from the Parser / Compiler class."""
    out = []
    for f in ctx.tree.funcs:
        if f.module.name in ("parser", "lexer", "compiler") or f.module.name.startswith("regex"):
            continue
        for c in f.own_nodes():
            if not (isinstance(c, ast.Call) and isinstance(c.func, ast.Attribute) and c.func.attr in ("parse", "compile")):
                continue
            recv = c.func.value
            cls = None
            if isinstance(recv, ast.Call) and isinstance(recv.func, ast.Name) and recv.func.id in ("Parser", "Compiler"):
                cls = recv.func.id
            elif isinstance(recv, ast.Name):
                for a in f.own_nodes():
                    if isinstance(a, ast.Assign) and any(isinstance(t, ast.Name) and t.id == recv.id for t in a.targets) and isinstance(a.value, ast.Call) and isinstance(a.value.func, ast.Name) and a.value.func.id in ("Parser", "Compiler"):
                        cls = a.value.func.id
            if cls is not None:
                out.append((f, c, cls))
    return out


def rule_front_end_recursion_converted(ctx, rep, rid: str) -> None:
    """The parser and the compiler are recursive over the nesting of the source, and the host's stack is finite: a few
    hundred nested calls end in RecursionError.  Every place that runs them on script text converts that error into
    a JSError-family refusal."""
    rep.rule(rid, "every run of the (recursive) parser or compiler on script text sits in a try whose handler for RecursionError (or a broader class) raises a JSError-family error: source nested beyond the host stack is refused, not answered with a host exception", floor=2)
    from ..util import try_handlers_enclosing

    t = ctx.tree
    n = 0
    for f, c, cls in _front_end_runs(ctx):
        n += 1
        key = f"{f.qual}:{cls}.{c.func.attr}"
        ok = None
        for tr, in_body in try_handlers_enclosing(c, f.node):
            if not in_body:
                continue
            for h in tr.handlers:
                names = [norm(x) for x in (h.type.elts if isinstance(h.type, ast.Tuple) else [h.type])] if h.type is not None else ["BaseException"]
                if not any(nm in ("RecursionError", "RuntimeError", "Exception", "BaseException") for nm in names):
                    continue
                for s in h.body:
                    for r in walk_no_nested(s):
                        if isinstance(r, ast.Raise) and r.exc is not None:
                            k = (norm(r.exc.func) if isinstance(r.exc, ast.Call) else norm(r.exc)).split(".")[-1]
                            if "JSError" in t.exc_ancestors(f.module, k):
                                ok = k
                if ok:
                    break
            if ok:
                break
        if ok:
            rep.ok(rid, key, {"converted_to": ok})
        else:
            rep.bad(rid, key, f"{f.qual} runs {cls}.{c.func.attr} on script text outside any handler that turns RecursionError into a JSError: the parser and the compiler recurse once per nesting level (and once per term of a long left-nested sum), so a few hundred nested calls or function expressions leave eval as the host's RecursionError", f"{f.module.rel}:{c.lineno}")
    if n < 2:
        raise AnalysisError(f"{rid}: only {n} runs of the parser/compiler found")


def rule_parse_polls_deadline(ctx, rep, rid: str) -> None:
    """The time limit covers the whole evaluation: the token loop of the lexer asks for the deadline at a bounded
    interval, and every parser built where a limit can be set is given the poll."""
    rep.rule(rid, "the lexer's token function asks a deadline callback at a bounded interval (a modulo-gated counter incremented by one per token) and raises TimeLimitError when it answers true, and every construction of a Parser outside the front end passes that callback: parsing time counts against the time limit", floor=2)
    lex = ctx.tree.mod("lexer")
    ci = lex.classes.get("Lexer")
    nt = ci.methods.get("next_token") if ci is not None else None
    if nt is None:
        raise AnalysisError("Lexer.next_token not found")
    polls = [c for c in nt.own_nodes() if isinstance(c, ast.Call) and isinstance(c.func, ast.Attribute) and norm(c.func.value) == "self" and not c.args]
    key = f"{nt.qual}:deadline-poll"
    good = False
    for c in polls:
        g = guards_of(c, nt.node)
        gates = [norm(t_).replace(" ", "") for t_, pol in g if pol]
        modulo = [x for x in gates if "%" in x and "==0" in x]
        raises = any(isinstance(p_, ast.If) and any(c is y for y in ast.walk(p_.test)) and raises_in(p_.body, "TimeLimitError") for p_ in nt.own_nodes())
        if not (modulo and raises):
            continue
        # the counter steps by one per token, unconditionally
        ctr = None
        for x in ast.walk(g[0][0]) if g else []:
            pass
        for t_, pol in g:
            for x in ast.walk(t_):
                if isinstance(x, ast.BinOp) and isinstance(x.op, ast.Mod) and isinstance(x.left, ast.Attribute):
                    ctr = norm(x.left)
        steps = [a for a in nt.node.body if isinstance(a, ast.AugAssign) and norm(a.target) == ctr and isinstance(a.op, ast.Add) and isinstance(a.value, ast.Constant) and a.value.value == 1]
        others = [a for a in nt.own_nodes() if isinstance(a, (ast.Assign, ast.AugAssign)) and ctr in [norm(t2) for t2 in (a.targets if isinstance(a, ast.Assign) else [a.target])] and a not in steps]
        if ctr and steps and not others:
            good = True
    if good:
        rep.ok(rid, key)
    else:
        rep.bad(rid, key, f"{nt.qual} does not ask a deadline callback on a counter that steps by one per token and raise TimeLimitError when it answers true: the time a parse takes (the arrow-function look-ahead re-reads nested parentheses at every level) is outside the time limit", nt.loc)
    n = 0
    for f in ctx.tree.funcs:
        if f.module.name in ("parser", "lexer") or isinstance(f.node, ast.Lambda):
            continue
        for c in f.own_nodes():
            if isinstance(c, ast.Call) and isinstance(c.func, ast.Name) and c.func.id == "Parser" and ctx.cg._class_visible("Parser", f) is not None:
                n += 1
                k2 = f"{f.qual}:Parser(..)"
                if len(c.args) >= 2 or any(kw.arg == "poll" for kw in c.keywords):
                    rep.ok(rid, k2)
                else:
                    rep.bad(rid, k2, f"{f.qual} builds a Parser without the deadline callback: this parse runs outside the time limit", f"{f.module.rel}:{c.lineno}")
    if n < 1:
        raise AnalysisError(f"{rid}: no Parser construction found outside the front end")
    # every lexer the front end itself builds (the parser's own, and any scratch lexer a look-ahead reads from) polls too
    for f in ctx.tree.funcs:
        if f.module.name != "parser" or isinstance(f.node, ast.Lambda):
            continue
        for c in f.own_nodes():
            if isinstance(c, ast.Call) and isinstance(c.func, ast.Name) and c.func.id == "Lexer":
                k3 = f"{f.qual}:Lexer(..)"
                if len(c.args) >= 2 or any(kw.arg == "poll" for kw in c.keywords):
                    rep.ok(rid, k3)
                else:
                    rep.bad(rid, k3, f"{f.qual} builds a Lexer without the deadline callback: the tokens it reads (a look-ahead that re-reads nested parentheses at every level is quadratic) are neither counted nor checked against the time limit", f"{f.module.rel}:{c.lineno}")


# ---- characters a delimited token must not contain are excluded on every path that produces the token --------
def _forbidden_in_loop(f: Func) -> Dict[str, int]:
    """Characters on which a character loop of f refuses the token: `if ch == "\\n": raise JSSyntaxError(..)`
    (also `ch in "\\n\\r"`), where the loop walks the source one character at a time.  char -> line."""
    out: Dict[str, int] = {}
    for w in f.own_nodes():
        if not isinstance(w, ast.While):
            continue
        for n in ast.walk(w):
            if not (isinstance(n, ast.If) and n.body and any(isinstance(s, ast.Raise) for s in n.body)):
                continue
            t = n.test
            if isinstance(t, ast.Compare) and len(t.ops) == 1 and isinstance(t.left, (ast.Name, ast.Call)) and isinstance(t.comparators[0], ast.Constant) and isinstance(t.comparators[0].value, str):
                if isinstance(t.ops[0], ast.Eq) and len(t.comparators[0].value) == 1:
                    out.setdefault(t.comparators[0].value, n.lineno)
                elif isinstance(t.ops[0], ast.In):
                    for ch in t.comparators[0].value:
                        out.setdefault(ch, n.lineno)
    return out


def _excludes_char(cond: ast.AST, pol: bool, ch: str) -> bool:
    """The condition, known to be `pol`, says that ch does not occur in the scanned text: X.find(ch, ..) == -1,
    ch not in X, not (ch in X), X.count(ch) == 0."""
    from ..util import atoms

    for a, p in atoms(cond, pol):
        if not isinstance(a, ast.Compare) or len(a.ops) != 1:
            continue
        l, r, op = a.left, a.comparators[0], a.ops[0]
        if isinstance(l, ast.Constant) and l.value == ch and ((isinstance(op, ast.NotIn) and p) or (isinstance(op, ast.In) and not p)):
            return True
        if isinstance(l, ast.Call) and isinstance(l.func, ast.Attribute) and l.func.attr in ("find", "count", "rfind") and l.args and isinstance(l.args[0], ast.Constant) and l.args[0].value == ch:
            rv = r.operand.value if isinstance(r, ast.UnaryOp) and isinstance(r.op, ast.USub) and isinstance(r.operand, ast.Constant) else (r.value if isinstance(r, ast.Constant) else None)
            neg = isinstance(r, ast.UnaryOp)
            want = 0 if l.func.attr == "count" else 1
            if rv == want and (neg or l.func.attr == "count"):
                if (isinstance(op, ast.Eq) and p) or (isinstance(op, ast.NotEq) and not p):
                    return True
            if l.func.attr != "count" and rv == 0 and not neg and ((isinstance(op, ast.Lt) and p) or (isinstance(op, ast.GtE) and not p)):
                return True
    return False


def rule_bulk_paths_keep_token_grammar(ctx, rep, rid: str) -> None:
    """The character loop of a literal reader states the token's grammar: where it refuses a character (a line break
    inside a string literal), a second way of producing the token in the same function (a slice of the source found
    with str.find) has to refuse it as well, or unterminated literals are accepted whenever the same quote occurs
    later in the file."""
    from ..util import known_conditions

    rep.rule(rid, "in a lexer function whose character loop refuses a character inside the token (raise JSSyntaxError on a line break in a string literal), every other path that returns a slice of the source as the token holds a condition that excludes that character from the slice: the two ways of reading one token accept the same texts", floor=1)
    # positive control
    ctl = ast.parse("def r(self, q):\n    e = self.source.find(q, self.pos)\n    if e != -1 and self.source.find('\\\\', self.pos, e) == -1:\n        return self.source[self.pos:e]\n    while self.cur():\n        ch = self.adv()\n        if ch == '\\n':\n            raise JSSyntaxError('x')\n")
    for n_ in ast.walk(ctl):
        for c_ in ast.iter_child_nodes(n_):
            c_._parent = n_

    class _F:
        node = ctl.body[0]

        def own_nodes(self):
            return list(ast.walk(ctl.body[0]))

    if list(_forbidden_in_loop(_F())) != ["\n"]:
        raise AnalysisError(f"{rid}: positive control failed")
    lex = ctx.tree.mod("lexer")
    n_fn = 0
    for f in ctx.tree.funcs:
        if f.module is not lex or isinstance(f.node, ast.Lambda):
            continue
        forb = _forbidden_in_loop(f)
        if not forb:
            continue
        n_fn += 1
        loops = [w for w in f.own_nodes() if isinstance(w, ast.While)]
        sliced = {t.id for a in f.own_nodes() if isinstance(a, ast.Assign) and isinstance(a.value, ast.Subscript) and isinstance(a.value.slice, ast.Slice) and norm(a.value.value) == "self.source" for t in a.targets if isinstance(t, ast.Name)}
        bulk = []
        for r in f.own_nodes():
            if not (isinstance(r, ast.Return) and r.value is not None):
                continue
            if any(any(x is r for x in ast.walk(w)) for w in loops):
                continue
            v = r.value
            if any(isinstance(x, ast.Subscript) and isinstance(x.slice, ast.Slice) and norm(x.value) == "self.source" for x in ast.walk(v)) or any(isinstance(x, ast.Name) and x.id in sliced for x in ast.walk(v)):
                # a slice taken after the loop has walked the text is the loop's own result
                first_loop = min((w.lineno for w in loops), default=10**9)
                if r.lineno < first_loop or not any(w.lineno < r.lineno for w in loops):
                    bulk.append(r)
                else:
                    # after a loop: does the slice end where the loop stopped?  (self.pos) - the loop examined it
                    continue
        if not bulk:
            rep.ok(rid, f"{f.qual}:single-path", {"refused_in_loop": sorted(repr(c) for c in forb)})
            continue
        for r in bulk:
            conds = known_conditions(r, f.node)
            for ch, ln in sorted(forb.items()):
                key = f"{f.qual}:bulk-return@{short(r.value, 30)}:{ch!r}"
                if any(_excludes_char(t, pol, ch) for t, pol in conds):
                    rep.ok(rid, key)
                else:
                    rep.bad(rid, key, f"{f.qual} returns the source slice `{short(r.value, 40)}` as the token without excluding {ch!r} from it, while its character loop refuses that character (line {ln}): a literal that is not closed on its line is accepted whenever the same delimiter occurs later in the file (in a comment, in the next literal), and the text in between is run with another meaning", f"{f.module.rel}:{r.lineno}")
    if n_fn == 0:
        raise AnalysisError(f"{rid}: no lexer loop that refuses a character inside a token was found")


# ---- no unary operator directly in front of ** -------------------------------------------------------------------
def rule_unary_before_exponent_rejected(ctx, rep, rid: str) -> None:
    """ECMAScript's grammar has UpdateExpression ** ExponentiationExpression: `-2 ** 2` is a SyntaxError (neither
    (-2) ** 2 nor -(2 ** 2)).  A recursive-descent parser that parses the operand of a prefix operator and returns
    accepts it as (-2) ** 2 unless it looks at the next token."""
    rep.rule(rid, "the parser refuses a prefix operator (- + ! ~ typeof void delete) whose operand is directly followed by **: somewhere between building the unary node and consuming the ** operator a syntax error is raised under a test for that token (in the unary branch), or under a test that the left operand of ** is an unparenthesised unary expression", floor=1)
    par = ctx.tree.mod("parser")
    found = []
    for f in ctx.tree.funcs:
        if f.module is not par or isinstance(f.node, ast.Lambda):
            continue
        for i in f.own_nodes():
            if not (isinstance(i, ast.If) and any(isinstance(x, ast.Raise) for b in i.body for x in ast.walk(b))):
                continue
            t = norm(i.test)
            mentions_pow = "STARSTAR" in t or "'**'" in t or '"**"' in t
            if not mentions_pow:
                # `if op == "**"` one level up
                from ..util import guards_of

                mentions_pow = any(pol and ("STARSTAR" in norm(g) or "'**'" in norm(g)) for g, pol in guards_of(i, f.node))
                if not (mentions_pow and "UnaryExpression" in t):
                    continue
            builds_unary = any(isinstance(c, ast.Call) and isinstance(c.func, ast.Name) and c.func.id == "UnaryExpression" for c in f.own_nodes())
            if builds_unary or "UnaryExpression" in t:
                found.append((f, i))
    if found:
        f, i = found[0]
        rep.ok(rid, "unary-before-exponent", {"refused_in": f.qual, "line": i.lineno})
    else:
        u = next((f for f in ctx.tree.funcs if f.module is par and "unary" in f.name.lower()), None)
        rep.bad(rid, "unary-before-exponent", "the parser builds a unary expression and goes on to consume ** without a test for that combination: `-2 ** 2` is accepted (as (-2) ** 2) where ECMAScript demands parentheses", u.loc if u is not None else f"{par.rel}:1")


def _continuation_closure(t, cls, chain):
    """chain plus the methods its members hand their running operand to (`left = self.m(left, ..)`), transitively."""
    out = list(chain)
    q = list(chain)
    while q:
        m = q.pop()
        for x in m.own_nodes():
            if isinstance(x, ast.Assign) and isinstance(x.value, ast.Call) and isinstance(x.value.func, ast.Attribute) and norm(x.value.func.value) == "self" and x.value.args and norm(x.value.args[0]) == norm(x.targets[0]):
                h = t.find_method(cls, x.value.func.attr)
                if h is not None and all(h is not o for o in out):
                    out.append(h)
                    q.append(h)
    return out


def rule_nested_array_element_continues(ctx, rep, rid: str) -> None:
    """The parser reads `[[[..` without recursion: it counts the brackets and builds the arrays from the inside out.  When
    an inner array is closed and becomes part of the enclosing one, it is only the START of that element: `[[1][0]]`,
    `[[].length]`, `[[] + 1]`, `[[1] ? 2 : 3]` have one element each.  The operand therefore has to be continued at
    the postfix, binary, conditional and assignment levels (not the comma level: commas separate elements) before it
    is appended."""
    rep.rule(rid, "in the iterative parser of nested array literals, an inner array that is closed inside an enclosing one is continued as an expression (member access/calls, binary operators, conditional, assignment) before it is stored as an element; the array is never appended as it is", floor=1)
    t = ctx.tree
    f = t.method("Parser", "_parse_nested_arrays") if any(m.name == "_parse_nested_arrays" for m in t.class_named("Parser").methods.values()) else None
    if f is None:
        rep.ok(rid, "no-iterative-array-parser", {"note": "array literals are parsed by the general expression parser"})
        return
    # arrays built here: names assigned ArrayExpression(..)
    built = {a.targets[0].id for a in f.own_nodes() if isinstance(a, ast.Assign) and len(a.targets) == 1 and isinstance(a.targets[0], ast.Name) and isinstance(a.value, ast.Call) and norm(a.value.func) == "ArrayExpression"}
    if not built:
        raise AnalysisError(f"{rid}: _parse_nested_arrays builds no ArrayExpression")
    n = 0
    for c in f.own_nodes():
        # <stack>[..].append(X) where X is a built array, or comes from one through continuation calls
        if not (isinstance(c, ast.Call) and isinstance(c.func, ast.Attribute) and c.func.attr == "append" and c.args):
            continue
        x = c.args[0]
        if isinstance(x, ast.Name) and x.id in built:
            n += 1
            rep.bad(rid, f"_parse_nested_arrays:append({x.id})@raw", f"Parser._parse_nested_arrays stores the inner array `{x.id}` as an element of the enclosing array as soon as its `]` is read (line {c.lineno}): what follows it is not looked at as part of the same element, so `[[1][0]]` becomes [[1], [0]], `[[] + 1]` becomes [[], 1] and `[[].length]` is a syntax error", f"{f.module.rel}:{c.lineno}")
            continue
        src = x
        if isinstance(x, ast.Name):
            vals = [a.value for a in f.own_nodes() if isinstance(a, ast.Assign) and len(a.targets) == 1 and norm(a.targets[0]) == x.id]
            vals = [v for v in vals if any(isinstance(y, ast.Name) and y.id in built for y in ast.walk(v))]
            if not vals:
                continue
            src = vals[0]
        if not any(isinstance(y, ast.Name) and y.id in built for y in ast.walk(src)):
            continue
        n += 1
        chain = []
        for y in ast.walk(src):
            if isinstance(y, ast.Call) and isinstance(y.func, ast.Attribute) and norm(y.func.value) == "self":
                m = t.find_method(f.cls, y.func.attr)
                if m is not None:
                    chain.append(m)
        txt = " ".join(" ".join(_body_texts(m)) for m in _continuation_closure(t, f.cls, chain))
        levels = {
            "postfix": ("_parse_postfix" in txt or "TokenType.DOT" in txt),
            "binary": "_continue_binary_expression" in txt or "_get_binary_operator" in txt,
            "conditional": "TokenType.QUESTION" in txt,
            "assignment": "TokenType.ASSIGN" in txt,
        }
        for lvl, present in levels.items():
            key = f"_parse_nested_arrays:inner-array:{lvl}"
            if present:
                rep.ok(rid, key)
            else:
                rep.bad(rid, key, f"after the `]` of an inner array Parser._parse_nested_arrays does not continue the element at the {lvl} level ({', '.join(m.name for m in chain) or 'no continuation'}): an element that STARTS with an array literal is cut short there", f"{f.module.rel}:{c.lineno}")
        if "TokenType.COMMA" in " ".join(" ".join(_body_texts(m)) for m in _continuation_closure(t, f.cls, chain)) and any("SequenceExpression" in " ".join(_body_texts(m)) for m in _continuation_closure(t, f.cls, chain)):
            rep.bad(rid, "_parse_nested_arrays:inner-array:comma", "the continuation of an inner array also applies the comma operator: `[[1], 2]` would be one element (the sequence [1], 2) instead of two", f"{f.module.rel}:{c.lineno}")
        else:
            rep.ok(rid, "_parse_nested_arrays:inner-array:no-comma-operator")
    if n == 0:
        raise AnalysisError(f"{rid}: no place where an inner array becomes an element of the enclosing one was found")


def rule_decimal_point_needs_no_digits(ctx, rep, rid: str) -> None:
    """DecimalLiteral :: DecimalIntegerLiteral . DecimalDigits(opt) ExponentPart(opt): `1.`, `1.e3` and `5..toString()` are
    numbers followed by whatever comes next.  A scanner that takes the point only when a digit follows reads `1.e3` as
    a property of 1.  And the character after a numeric literal is never an identifier character or a digit."""
    rep.rule(rid, "the number scanner admits the decimal point after the integer digits without looking at the character behind it, and refuses an identifier character directly after a numeric literal", floor=2)
    lx = ctx.tree.class_named("Lexer")
    cands = [m for m in lx.methods.values() if not isinstance(m.node, ast.Lambda) and any(isinstance(c, ast.Compare) and norm(c).replace("'", '"') == 'self._current() == "."' for c in m.own_nodes()) and any(isinstance(c, ast.Call) and norm(c.func) == "float" for c in m.own_nodes())]
    if not cands:
        raise AnalysisError(f"{rid}: the number scanner of the lexer was not found")
    for m in cands:
        for t in m.own_nodes():
            if isinstance(t, ast.If) and any(isinstance(c, ast.Compare) and norm(c).replace("'", '"') == 'self._current() == "."' for c in ast.walk(t.test)):
                key = f"{m.qual}:decimal-point"
                looks = [c for c in ast.walk(t.test) if isinstance(c, ast.Call) and isinstance(c.func, ast.Attribute) and c.func.attr in ("_peek", "_peek_char", "_lookahead")]
                if looks:
                    rep.bad(rid, key, f"{m.qual} takes the decimal point only when `{short(t.test, 60)}`: `1.`, `1.e3` and `5..toString()` are then an integer followed by a member access (1.e3 evaluates to undefined)", f"{m.module.rel}:{t.lineno}")
                else:
                    rep.ok(rid, key)
        # the end-of-literal check: here or in a helper called from here
        bodies = [m] + [h for c in m.own_nodes() if isinstance(c, ast.Call) and isinstance(c.func, ast.Attribute) and norm(c.func.value) == "self" for h in [ctx.tree.find_method(lx, c.func.attr)] if h is not None]
        ends = any(isinstance(r, ast.Raise) and r.exc is not None and "SyntaxError" in norm(r.exc) and any(isinstance(p, ast.If) and any(w in norm(p.test) for w in ("isalnum", "isalpha", "isidentifier", "_is_id")) for p in _parents_of(r)) for b in bodies for r in b.own_nodes())
        key = f"{m.qual}:identifier-after-number"
        if ends:
            rep.ok(rid, key)
        else:
            rep.bad(rid, key, f"{m.qual} ends a numeric literal without looking at the next character: `3in x`, `1.toString()` and `0x1g` are accepted although the grammar forbids an identifier directly after a number", m.loc)


def _parents_of(n):
    p = getattr(n, "_parent", None)
    while p is not None:
        yield p
        p = getattr(p, "_parent", None)


def rule_new_callee_is_member_expression(ctx, rep, rid: str) -> None:
    """`new MemberExpression Arguments`: in `new a.b.c(x)` the callee is a.b.c and (x) are the constructor's arguments.
    A parser that takes a primary expression as the callee constructs `a` and then reads `.b.c(x)` off the instance."""
    rep.rule(rid, "after `new` the parser continues the callee over property accesses (.name and [expr]) - and not over calls - before it reads the argument list", floor=1)
    ps = ctx.tree.class_named("Parser")
    fs = [m for m in ps.methods.values() if not isinstance(m.node, ast.Lambda) and any(isinstance(c, ast.Call) and norm(c.func) == "self._match" and c.args and norm(c.args[0]) == "TokenType.NEW" for c in m.own_nodes())]
    if not fs:
        raise AnalysisError(f"{rid}: no parser method matches TokenType.NEW")
    for m in fs:
        key = f"{m.qual}:callee"
        cal = [a for a in m.own_nodes() if isinstance(a, ast.Assign) and len(a.targets) == 1 and norm(a.targets[0]) == "callee"]
        if not cal:
            raise AnalysisError(f"{rid}: {m.qual} has no `callee = ...`")
        good = False
        why = "only a primary expression (or another `new`) is parsed as the callee"
        for a in cal:
            for c in ast.walk(a.value):
                if isinstance(c, ast.Call) and isinstance(c.func, ast.Attribute) and norm(c.func.value) == "self" and c.func.attr != m.name:
                    h = ctx.tree.find_method(ps, c.func.attr)
                    if h is None:
                        continue
                    txt = " ".join(_body_texts(h))
                    if "TokenType.DOT" in txt and "TokenType.LBRACKET" in txt:
                        if "CallExpression" in txt and len(c.args) + len(c.keywords) < 2:
                            why = f"the callee is continued by {h.name}, which also applies calls: `new a.b()` would construct the result of a.b()"
                        else:
                            good = True
        if good:
            rep.ok(rid, key)
        else:
            rep.bad(rid, key, f"{m.qual}: {why}; `new a.b(x)` is parsed as `(new a).b(x)` and fails with 'not a constructor'", m.loc)


def rule_literal_scanner_details(ctx, rep, rid: str) -> None:
    """Three places where the scanner of literals meets the layout of the source: a backslash-newline inside a string
    literal is a LineContinuation (no characters), a RegularExpressionLiteral may begin with `=` although `/=` is also
    a punctuator, and a RegularExpressionBackslashSequence cannot contain a line terminator."""
    rep.rule(rid, "the string scanner has an escape branch for the line break that appends nothing; where the parser expects an operand it starts a regex literal on `/=` as well as on `/`; the regex-literal scanner refuses a line break after a backslash", floor=3)
    lx = ctx.tree.class_named("Lexer")
    ps = ctx.tree.class_named("Parser")
    # (1) string escapes
    rs = [m for m in lx.methods.values() if not isinstance(m.node, ast.Lambda) and any(isinstance(c, ast.Compare) and norm(c.left) == "escape" for c in m.own_nodes())]
    if not rs:
        raise AnalysisError(f"{rid}: the string scanner's escape chain was not found")
    for m in rs:
        key = f"{m.qual}:line-continuation"
        ok = False
        for t in m.own_nodes():
            if isinstance(t, ast.If) and any(isinstance(c, ast.Compare) and norm(c.left) == "escape" and any((isinstance(k, ast.Constant) and k.value == "\n") or (isinstance(k, (ast.Tuple, ast.List, ast.Set)) and any(isinstance(e, ast.Constant) and e.value == "\n" for e in k.elts)) or (isinstance(k, ast.Constant) and isinstance(k.value, str) and "\n" in k.value and len(k.value) > 1) for k in c.comparators) for c in ast.walk(t.test)):
                appends = [c for b in t.body for c in ast.walk(b) if isinstance(c, ast.Call) and isinstance(c.func, ast.Attribute) and c.func.attr == "append"]
                if not appends:
                    ok = True
        if ok:
            rep.ok(rid, key)
        else:
            rep.bad(rid, key, f"{m.qual} has no escape branch for a line break: `'a\\<LF>b'` keeps the line break (\"a<LF>b\") through the default branch, although backslash-newline is a line continuation that stands for nothing", m.loc)
    # (2) regex literal on /=
    n2 = 0
    for m in ps.methods.values():
        if isinstance(m.node, ast.Lambda):
            continue
        for t in m.own_nodes():
            if isinstance(t, ast.If) and any(isinstance(c, ast.Call) and isinstance(c.func, ast.Attribute) and c.func.attr == "read_regex_literal" for b in t.body for c in ast.walk(b)):
                n2 += 1
                key = f"{m.qual}:regex-on-slash-assign"
                if "SLASH_ASSIGN" in norm(t.test):
                    rep.ok(rid, key)
                else:
                    rep.bad(rid, key, f"{m.qual} starts a regex literal only on the `/` token (`{short(t.test, 50)}`): `/=a/` is lexed as the `/=` operator and rejected, although a pattern may begin with `=`", f"{m.module.rel}:{t.lineno}")
    if n2 == 0:
        raise AnalysisError(f"{rid}: no parser branch calls read_regex_literal")
    # (3) backslash then line break in a regex literal
    rr = lx.methods.get("read_regex_literal")
    if rr is None:
        raise AnalysisError(f"{rid}: Lexer.read_regex_literal not found")
    key = f"{rr.qual}:backslash-line-break"
    esc = [t for t in rr.own_nodes() if isinstance(t, ast.If) and "'\\\\'" in norm(t.test).replace('"', "'")]
    guarded = any(isinstance(r, ast.Raise) for t in esc for b in t.body for r in ast.walk(b)) or any(isinstance(t, ast.If) and "\\n" in norm(t.test) and "self.pos + 1" in norm(t.test) and any(isinstance(r, ast.Raise) for r in ast.walk(t)) for t in rr.own_nodes())
    if guarded:
        rep.ok(rid, key)
    else:
        rep.bad(rid, key, f"{rr.qual} copies the character after a backslash whatever it is: a regex literal continues across a line break that follows a backslash", rr.loc)
