"""Obligations O1..O12 over the compiler's emit discipline (E3), shared by C02, C05, C07, C03."""

from __future__ import annotations

import ast
import re
from typing import Any, Dict, List, Optional, Tuple

from .. import emit
from ..core import AnalysisError, Func, norm, short, walk_no_nested
from ..effects import derive

LOOP_KINDS = {
    "WhileStatement": "while",
    "DoWhileStatement": "do-while",
    "ForStatement": "for",
    "ForInStatement": "for-in",
    "ForOfStatement": "for-of",
}


class Ob:
    def __init__(self, ob: str, key: str, ok: bool, msg: str, loc: str, sample: Any = None):
        self.ob, self.key, self.ok, self.msg, self.loc, self.sample = ob, key, ok, msg, loc, sample


def _loc(ea, line: int) -> str:
    return f"{ea.comp.module.rel}:{line}"


def _no_jump_can_cross(ea, fname: str) -> bool:
    """The dispatcher `fname` (the completion-value compiler) is never entered under a loop, switch or labelled
    context and creates none itself: every method that calls it, and every branch of it, puts only try contexts on
    loop_stack.  Then no break/continue can leave a statement it compiles (there is no target; return is not allowed
    at program level), and operands waiting below a nested statement cannot be left behind by a jump."""
    import ast as _ast

    from ..core import norm as _norm

    try:
        for br in ea.run_chain(fname):
            for e in br.ends:
                for c in e.ctxs:
                    if not c.is_try:
                        return False
    except Exception:
        return False
    for name, m in ea.methods.items():
        if isinstance(m.node, _ast.Lambda):
            continue
        calls = [c for c in m.own_nodes() if isinstance(c, _ast.Call) and _norm(c.func) == f"self.{fname}"]
        if not calls or name == fname:
            continue
        for c in m.own_nodes():
            if isinstance(c, _ast.Call) and _norm(c.func).endswith("LoopContext"):
                kw = {k.arg: k.value for k in c.keywords}
                if not ("is_try" in kw and isinstance(kw["is_try"], _ast.Constant) and kw["is_try"].value is True):
                    return False
            if isinstance(c, _ast.Call) and _norm(c.func) == "self._new_loop_context":
                return False
    return True


def compute(ctx) -> List[Ob]:
    if getattr(ctx, "_e3_obs", None) is not None:
        return ctx._e3_obs
    ea = emit.get(ctx)
    obs: List[Ob] = []
    expected = {"_compile_statement": 0, "_compile_expression": 1, "_compile_statement_for_value": 1}
    residues: Dict[str, Any] = {}
    for fname, want in expected.items():
        for br in ea.run_chain(fname):
            okey = "O1" if want == 0 else "O2"
            base = f"{fname}:{br.cls}"
            live_ends = [e for e in br.ends if not e.raised]
            # path findings (O3, O4, O10, O11, ...)
            seen = set()
            bad_obs = set()
            # O13: what the contexts on loop_stack declare is what the branch set up, at every nested statement
            o13: Dict[str, Tuple[bool, str, int]] = {}
            for e in live_ends:
                for depth, declared, what, line, active, flagged, own_fin in getattr(e, "deferred", []):
                    actual = e.res(depth)
                    for key, ok, msg in (
                        (f"operands@{what}", actual == declared, f"while {what} is compiled the branch holds {actual} operand(s) on the stack but its contexts on loop_stack declare {declared} (stack_items): a break/continue/return from inside drops the wrong number"),
                        (f"handler@{what}", active == flagged, f"while {what} is compiled {active} handler record(s) of this statement are registered but the contexts on loop_stack declare {flagged} (handler_active): a break/continue/return from inside leaves a stale handler or pops a foreign one"),
                        (f"finalizer-self@{what}", not own_fin, f"{what} is compiled while its own try context is still on loop_stack: a break/continue/return inside the finally block would run it again"),
                    ):
                        if key not in o13 or (o13[key][0] and not ok):
                            o13[key] = (bool(ok), msg, line)
            for key, (ok, msg, line) in sorted(o13.items()):
                if key.startswith("finalizer-self@") and ok:
                    continue
                if not ok and key.startswith("operands@") and fname != "_compile_statement" and _no_jump_can_cross(ea, fname):
                    ok = True  # no loop, switch or label is ever around these statements: nothing can jump out of them
                obs.append(Ob("O13", f"{base}:{key}", ok, "" if ok else f"{br.cls} branch of {fname}: {msg}", _loc(ea, line)))
            for e in live_ends:
                for ob, key, msg, line in e.findings:
                    if (ob, key) in seen:
                        continue
                    seen.add((ob, key))
                    bad_obs.add(ob)
                    obs.append(Ob(ob, f"{base}:{key}", False, f"{br.cls} branch of {fname}: {msg}", _loc(ea, line)))
            for gen, label in (("O3", "joins"), ("O4", "exit-targets"), ("O10", "no-dead-code")):
                if gen not in bad_obs and live_ends:
                    if gen == "O4" and br.cls not in LOOP_KINDS and br.cls not in ("SwitchStatement", "LabeledStatement"):
                        continue
                    obs.append(Ob(gen, f"{base}:{label}", True, "", _loc(ea, br.line)))
            # end-depth obligation
            depths = set()
            assumed = False
            bad_depth = None
            for e in live_ends:
                if e.assumed:
                    assumed = True
                    continue
                if e.live:
                    d = e.res(e.depth)
                    depths.add(repr(d))
                    if not (d == want):
                        bad_depth = d
                elif want == 1 and br.cls != "<else>":
                    bad_depth = "dead"
            if assumed:
                ea.assumed.append(base)
                obs.append(Ob(okey, f"{base}:end-depth", True, "", _loc(ea, br.line), {"branch": base, "status": "work-list loop: net effect assumed, not verified"}))
            elif bad_depth is not None:
                obs.append(Ob(okey, f"{base}:end-depth", False, f"{br.cls} branch of {fname} can end with net operand-stack effect {bad_depth} instead of {want:+d} (end depths over all paths: {sorted(depths)})", _loc(ea, br.line)))
            elif live_ends:
                obs.append(Ob(okey, f"{base}:end-depth", True, "", _loc(ea, br.line), {"branch": base, "paths": br.paths, "end_depths": sorted(depths) or ["(terminal)"]}))
            # O11: every placeholder patched
            outst = {}
            for e in live_ends:
                for ph in e.outstanding.values():
                    outst[f"{ph.op}@+{ph.line - br.line}"] = ph
            if outst:
                for k, ph in outst.items():
                    obs.append(Ob("O11", f"{base}:unpatched:{ph.op}", False, f"{br.cls} branch of {fname}: the {ph.op} emitted at line {ph.line} is never patched on some path (it jumps to offset 0)", _loc(ea, ph.line)))
            elif live_ends:
                obs.append(Ob("O11", f"{base}:placeholders", True, "", _loc(ea, br.line)))
            # contexts created by this branch
            ctxs = {}
            for e in live_ends:
                for c in e.ctxs:
                    ctxs[c.line] = c
            for c in ctxs.values():
                kind = LOOP_KINDS.get(br.cls, "switch" if br.cls == "SwitchStatement" else ("label" if br.cls == "LabeledStatement" else br.cls))
                if c.body_depth is not None:
                    residues[kind] = live_ends[0].res(c.body_depth) if live_ends else c.body_depth
                ck = f"{base}:ctx"
                if c.is_try:
                    # never a break/continue target (checked by the leave simulation): nothing to patch
                    if not c.pushed or not c.popped:
                        obs.append(Ob("O11", f"{ck}:push-pop", False, f"{br.cls}: the try context created at line {c.line} is not pushed on and popped from loop_stack on every path", _loc(ea, c.line)))
                    continue
                if not c.pushed or not c.popped:
                    obs.append(Ob("O11", f"{ck}:push-pop", False, f"{br.cls}: the LoopContext created at line {c.line} is not pushed on and popped from loop_stack on every path", _loc(ea, c.line)))
                if not c.patched.get("break_jumps"):
                    obs.append(Ob("O11", f"{ck}:break_jumps", False, f"{br.cls}: break jumps collected by the context created at line {c.line} are never patched", _loc(ea, c.line)))
                else:
                    obs.append(Ob("O11", f"{ck}:break_jumps", True, "", _loc(ea, c.line)))
                if "_nonloop_continue" not in ea.__dict__:
                    from . import leave

                    ea._nonloop_continue = leave.continue_can_select_nonloop(ea)
                can_continue = c.is_loop or (c.labelled and ea._nonloop_continue)
                if can_continue and not c.patched.get("continue_jumps"):
                    obs.append(Ob("O11", f"{ck}:continue_jumps", False, f"{br.cls}: a labelled `continue` can select the context created at line {c.line}, but its continue jumps are never patched (they jump to offset 0)", _loc(ea, c.line)))
                elif can_continue:
                    obs.append(Ob("O11", f"{ck}:continue_jumps", True, "", _loc(ea, c.line)))
            # C05-R2 placement of continue/break targets and back-jumps
            if br.cls in LOOP_KINDS:
                obs.extend(_placement(ea, br, base))
    # function bodies end in a terminal opcode
    for fname in ("compile", "_compile_function", "_compile_arrow_function"):
        br = ea.run_function(fname)
        bad = [e for e in br.ends if not e.raised and e.live]
        fs = [f for e in br.ends for f in e.findings]
        if bad:
            obs.append(Ob("O1", f"{fname}:terminal", False, f"{fname} can finish a function body without emitting RETURN/RETURN_UNDEFINED last", _loc(ea, br.line)))
        else:
            obs.append(Ob("O1", f"{fname}:terminal", True, "", _loc(ea, br.line), {"function": fname, "paths": br.paths}))
        for ob, key, msg, line in {(f[0], f[1], f[2], f[3]) for f in fs}:
            obs.append(Ob(ob, f"{fname}:{key}", False, f"{fname}: {msg}", _loc(ea, line)))
    ea.residues = residues
    obs.extend(_mechanisms(ctx, ea, residues))
    ctx._e3_obs = obs
    return obs


PHASES = ("expr", "stmt", "value")


def _next_phase(events: List[Tuple], idx: int, depth: int = 0) -> Optional[Tuple]:
    """First phase event (compile of a child, or iterator-advance emit) after position idx,
    following unconditional back-jumps to their labels."""
    for j in range(idx + 1, len(events)):
        ev = events[j]
        if ev[0] in PHASES:
            return ev
        if ev[0] == "emit" and ev[1] in ("FOR_IN_NEXT", "FOR_OF_NEXT"):
            return ev
        if ev[0] == "backjump" and ev[3] == "JUMP" and depth < 2:
            return _next_phase(events, ev[2], depth + 1)
    return None


def _placement(ea, br, base: str) -> List[Ob]:
    out: List[Ob] = []
    kind = LOOP_KINDS[br.cls]
    seen = set()
    for e in br.ends:
        if e.raised:
            continue
        evs = e.events
        for ev in evs:
            if ev[0] == "patchlist" and ev[2] == "continue_jumps":
                nxt = _next_phase(evs, ev[4]) if ev[3] is not None else None
                if kind in ("while", "do-while"):
                    allowed = [("expr", "node.test")]
                elif kind == "for":
                    allowed = [("expr", "node.update")] if e.dec.get("node.update") else ([("expr", "node.test")] if e.dec.get("node.test") else [("stmt", "node.body")])
                else:
                    allowed = [("emit", "FOR_IN_NEXT" if kind == "for-in" else "FOR_OF_NEXT")]
                got = (nxt[0], nxt[1]) if nxt else None
                key = f"{base}:continue-target"
                sig = (key, got in allowed)
                if got in allowed:
                    if sig not in seen:
                        out.append(Ob("R2", key, True, "", _loc(ea, br.line), {"loop": kind, "continue_lands_before": got}))
                else:
                    if sig not in seen:
                        out.append(Ob("R2", key, False, f"`continue` in a {kind} loop lands before {got if got else 'the end of the loop'}; the language requires {allowed} next (update/test must not be skipped, body/init must not be re-entered)", _loc(ea, br.line)))
                seen.add(sig)
            if ev[0] == "patchlist" and ev[2] == "break_jumps":
                after = [x for x in evs[(ev[4] if ev[3] is not None else evs.index(ev)) + 1:] if x[0] in PHASES]
                key = f"{base}:break-target"
                ok = not after
                sig = (key, ok)
                if sig not in seen:
                    if ok:
                        out.append(Ob("R2", key, True, "", _loc(ea, br.line), {"loop": kind, "break_lands": "after the loop"}))
                    else:
                        out.append(Ob("R2", key, False, f"`break` in a {kind} loop lands before {after[0][:2]} is (re)executed: it does not leave the loop", _loc(ea, br.line)))
                seen.add(sig)
            if ev[0] == "backjump":
                nxt = _next_phase(evs, ev[2])
                got = (nxt[0], nxt[1]) if nxt else None
                if kind == "while":
                    allowed = [("expr", "node.test")]
                elif kind == "do-while":
                    allowed = [("stmt", "node.body")]
                elif kind == "for":
                    allowed = [("expr", "node.test")] if e.dec.get("node.test") else [("stmt", "node.body")]
                else:
                    allowed = [("emit", "FOR_IN_NEXT" if kind == "for-in" else "FOR_OF_NEXT")]
                key = f"{base}:back-edge"
                ok = got in allowed
                sig = (key, ok)
                if sig not in seen:
                    if ok:
                        out.append(Ob("R2", key, True, "", _loc(ea, br.line), {"loop": kind, "back_edge_lands_before": got}))
                    else:
                        out.append(Ob("R2", key, False, f"the back edge of a {kind} loop lands before {got}; the language requires {allowed}", _loc(ea, br.line)))
                seen.add(sig)
    if not any(o.key.endswith("back-edge") for o in out):
        out.append(Ob("R2", f"{base}:back-edge", False, f"{kind} loop emits no backward jump to a recorded label", _loc(ea, br.line)))
    return out


# ----------------------------------------------------- mechanism-presence rules
def _branch_body(ea, fname: str, cls: str) -> Tuple[List[ast.stmt], int]:
    f, chain, _ = ea.node_chain(fname)
    for classes, body, line in chain:
        if cls in classes:
            return body, line
    raise AnalysisError(f"{fname} has no branch for {cls}")


def _has_emit_in_loop_over(stmts: List[ast.stmt], opname: str, stack_attr: str) -> bool:
    for s in stmts:
        for n in walk_no_nested(s):
            if isinstance(n, (ast.For, ast.While)):
                head = norm(n.iter) if isinstance(n, ast.For) else norm(n.test)
                if stack_attr in head:
                    for m in ast.walk(n):
                        if isinstance(m, ast.Call) and norm(m.func) == "self._emit" and m.args and norm(m.args[0]) == f"OpCode.{opname}":
                            return True
    return False


def _handler_text(ctx, chain, df, opn: str) -> str:
    """Normalised text of an opcode handler plus the VM helpers it calls (one level)."""
    b = chain.body_of(opn) or []
    parts = [norm(s) for s in b]
    for s in b:
        for n in walk_no_nested(s):
            if isinstance(n, ast.Call) and isinstance(n.func, ast.Attribute) and norm(n.func.value) == "self":
                h = ctx.tree.find_method(df.cls, n.func.attr)
                if h is not None:
                    parts.extend(norm(x) for x in h.body())
    return " ; ".join(parts)


def _mechanisms(ctx, ea, residues: Dict[str, Any]) -> List[Ob]:
    out: List[Ob] = []
    t = ctx.tree
    df, chain = ctx.facts.vm_dispatcher()
    pos = {k: v for k, v in residues.items() if not (v == 0)}
    comp = ea.comp
    # O5 / O8 / O12a: what break, continue and return undo on their way out, by interpreting the compiler's own
    # target-resolution and leave code over every stack of up to three contexts (sa/rules/leave.py)
    out.extend(_leave_obligations(ea))
    # O6 return: the RETURN handlers discard the operands of the frame (the return branch drops none itself)
    body, line = _branch_body(ea, "_compile_statement", "ReturnStatement")
    key = "_compile_statement:ReturnStatement:residues"
    vm_truncates = all(
        ("del self.stack[" in _handler_text(ctx, chain, df, opn) and ".bp" in _handler_text(ctx, chain, df, opn)) for opn in ("RETURN", "RETURN_UNDEFINED")
    )
    if not pos or vm_truncates:
        out.append(Ob("O6", key, True, "", _loc(ea, line)))
    else:
        out.append(Ob("O6", key, False, f"`return` from inside {sorted(pos)} leaves their residue under the return value: the RETURN handlers do not truncate the operand stack to the frame base", _loc(ea, line)))
    # O7 throw restores operand depth
    ts = chain.body_of("TRY_START") or []
    rec_has_depth = any("len(self.stack)" in norm(s) for s in ts)
    thr = t.find_method(df.cls, "_throw")
    thr_txt = " ".join(norm(n) for n in thr.body()) if thr else ""
    restores = "del self.stack[" in thr_txt or "self.stack = self.stack[:" in thr_txt or "while len(self.stack) >" in thr_txt
    key = "vm:_throw:operand-depth"
    if rec_has_depth and restores:
        out.append(Ob("O7", key, True, "", thr.loc))
    else:
        out.append(Ob("O7", key, False, "the handler record pushed by TRY_START does not carry the operand depth / _throw does not truncate the operand stack to it: operands pending when an exception is thrown stay on the stack after the catch", thr.loc if thr else df.loc))
    # O8 (return): the RETURN handlers also prune the handler records of the frame they pop
    vm_prunes = all("self.exception_handlers.pop()" in _handler_text(ctx, chain, df, opn) for opn in ("RETURN", "RETURN_UNDEFINED"))
    key = "vm:RETURN:handler-records"
    if vm_prunes:
        out.append(Ob("O8", key, True, "", df.loc))
    else:
        out.append(Ob("O8", key, False, "RETURN does not prune the handler records of the frame it pops: a function that returns from inside a try block (through a path the compiler did not see) leaves a stale handler", df.loc))
    # O9 nested run loops notice unwinding below them
    for f, loop in ctx.facts.dispatch_loops():
        if isinstance(loop, ast.While) and isinstance(loop.test, ast.Compare) and "len(self.call_stack)" in norm(loop.test.left):
            saved = norm(loop.test.comparators[0])
            after = False
            for n in f.own_nodes():
                if isinstance(n, ast.Compare) and norm(n.left) == "len(self.call_stack)" and isinstance(n.ops[0], ast.Lt) and norm(n.comparators[0]) == saved and n.lineno > loop.lineno:
                    after = True
            key = f"{f.qual}:unwound-below"
            if not after:
                after = _boundary_protocol(ctx, f, loop, saved)
            if after:
                out.append(Ob("O9", key, True, "", f.loc))
            else:
                out.append(Ob("O9", key, False, f"{f.qual} runs `while len(self.call_stack) > {saved}` but never tests for `< {saved}` afterwards: when a throw inside the callback unwinds to a handler below this native call, the native keeps running as if the callback had returned", f"{f.module.rel}:{loop.lineno}"))
    # a helper that re-enters the full run loop (runs until the call stack is empty)
    full_loops = [f for f, loop in ctx.facts.dispatch_loops() if isinstance(loop, ast.While) and norm(loop.test) == "self.call_stack"]
    for fl in full_loops:
        for cs in ctx.cg.sites:
            if any(tg is fl for tg in cs.targets) and cs.kind == "resolved" and cs.func.name != "run":
                out.append(Ob("O9", f"{cs.func.qual}:reenters-full-loop", False, f"{cs.func.qual} re-enters {fl.name}, whose loop runs until the call stack is empty, so it returns only after the *caller's* frames have finished too (call/apply/bound calls run the rest of the program inside the native)", f"{cs.func.module.rel}:{cs.line}"))
    # O12b per-function compiler state
    readers = set()
    for cls in ("BreakStatement", "ContinueStatement", "ReturnStatement"):
        body, _ = _branch_body(ea, "_compile_statement", cls)
        helper_body = []
        for hn in ("_emit_leave_contexts", "_new_loop_context"):
            if hn in ea.methods:
                helper_body += ea.methods[hn].body()
        for s in body + helper_body:
            for n in ast.walk(s):
                if isinstance(n, ast.Attribute) and norm(n.value) == "self" and n.attr in ("loop_stack", "try_stack", "_pending_labels"):
                    readers.add(n.attr)
    per_fn: Dict[str, Dict[str, Tuple[bool, bool, bool]]] = {}

    from ..util import state_protocol

    for fname in ("_compile_function", "_compile_arrow_function"):
        f = ea.methods.get(fname)
        saved_attrs, reset_attrs, restored_attrs = state_protocol(ctx, f)
        attrs = set(readers) | (saved_attrs & restored_attrs)
        per_fn[fname] = {}
        for attr in sorted(attrs):
            per_fn[fname][attr] = (attr in saved_attrs, attr in reset_attrs, attr in restored_attrs)
    all_attrs = sorted(set().union(*[set(v) for v in per_fn.values()]))
    for fname in per_fn:
        f = ea.methods.get(fname)
        for attr in all_attrs:
            saved, reset, restored = per_fn[fname].get(attr, (False, False, False))
            key = f"{fname}:state:{attr}"
            if saved and reset and restored:
                out.append(Ob("O12b", key, True, "", f.loc))
            else:
                missing = [w for w, ok in (("save", saved), ("reset", reset), ("restore", restored)) if not ok]
                out.append(Ob("O12b", key, False, f"{fname} does not {'/'.join(missing)} self.{attr}, which is per-function compiler state ({'read by break/continue/return' if attr in readers else 'saved or reset by a function compiler'}): the enclosing function continues with the nested function's value (or the nested one sees the outer's)", f.loc))
    return out


def _boundary_protocol(ctx, f, loop, saved: str) -> bool:
    """The other sound shape: the nested loop publishes its boundary (`self.D.append(saved)` paired with a pop in
    `finally` around the loop) and the thrower refuses to unwind below it: before it removes a handler record it
    compares the record's frame index with `self.D[-1]` (strictly below) and raises an unwinding signal instead."""
    D = None
    for n in f.own_nodes():
        if isinstance(n, ast.Call) and isinstance(n.func, ast.Attribute) and n.func.attr == "append" and norm(n.func.value).startswith("self.") and len(n.args) == 1 and norm(n.args[0]) == saved and n.lineno < loop.lineno:
            D = norm(n.func.value)
    if D is None:
        return False
    # pop in a finally that encloses the loop
    enclosed = False
    p = getattr(loop, "_parent", None)
    while p is not None and p is not f.node:
        if isinstance(p, ast.Try) and any(f"{D}.pop()" in norm(x) for x in p.finalbody):
            enclosed = True
        p = getattr(p, "_parent", None)
    if not enclosed:
        return False
    # the thrower: the method that pops handler records and truncates the call stack
    throwers = []
    for m in f.cls.all_methods:
        txt = [norm(x) for x in m.own_nodes() if isinstance(x, ast.Call)]
        if "self.exception_handlers.pop()" in txt and "self.call_stack.pop()" in txt and any(isinstance(x, ast.Raise) for x in m.own_nodes()):
            if any(isinstance(x, ast.Assign) and "catch_ip" in norm(x) for x in m.own_nodes()):
                throwers.append(m)
    if len(throwers) != 1:
        return False
    th = throwers[0]
    pop_line = min(x.lineno for x in th.own_nodes() if isinstance(x, ast.Call) and norm(x) == "self.exception_handlers.pop()")
    for n in th.own_nodes():
        if isinstance(n, ast.If) and n.lineno < pop_line and any(isinstance(x, ast.Raise) for x in n.body):
            for c in ast.walk(n.test):
                if isinstance(c, ast.Compare) and len(c.ops) == 1:
                    l, r = norm(c.left), norm(c.comparators[0])
                    hf, bd = "self.exception_handlers[-1][0]", f"{D}[-1]"
                    if (isinstance(c.ops[0], ast.Lt) and l == hf and r == bd) or (isinstance(c.ops[0], ast.Gt) and l == bd and r == hf):
                        return True
    return False


def _leave_obligations(ea) -> List[Ob]:
    from . import leave

    out: List[Ob] = []
    recs = leave.simulate(ea)
    if len(recs) < 200:
        raise AnalysisError(f"only {len(recs)} leave scenarios simulated")
    agg: Dict[Tuple[str, str], Dict[str, Any]] = {}
    for rec in recs:
        res = leave.check(rec)
        cls = rec["cls"]
        inner = rec["crossed"][-1] if rec["crossed"] else "none"
        lab = "labelled" if rec["labelled"] else "unlabelled"
        keys = {
            "target": ("O5", f"_compile_statement:{cls}:crossing:{inner}:{lab}:target"),
            "operands": ("O5" if rec["what"] != "return" else "O6", f"_compile_statement:{cls}:crossing:{inner}:{lab}"),
            "handlers": ("O8", f"_compile_statement:{cls}:handler-stack"),
            "finalizers": ("O12a", f"_compile_statement:{cls}:finally-scope"),
        }
        for concern, (ob, key) in keys.items():
            a = agg.setdefault((ob, key), {"n": 0, "bad": None, "line": rec["line"]})
            a["n"] += 1
            if res[concern] is not None and a["bad"] is None:
                a["bad"] = res[concern]
    for (ob, key), a in sorted(agg.items()):
        if key.endswith(":target") and a["bad"] is None:
            continue  # target selection is only reported when wrong
        if a["bad"] is None:
            out.append(Ob(ob, key, True, "", _loc(ea, a["line"]), {"scenarios": a["n"]}))
        else:
            out.append(Ob(ob, key, False, a["bad"], _loc(ea, a["line"])))
    return out


def report(ctx, rep, mapping: Dict[str, str], texts: Dict[str, str]) -> None:
    """Report obligations whose kind is in mapping under the given rule ids."""
    obs = compute(ctx)
    declared = set()
    for ob, rid in mapping.items():
        if rid not in declared:
            floors = {"O1": 20, "O2": 20, "O3": 0, "O4": 0, "O10": 0}
            rep.rule(rid, texts.get(rid, rid), floor=1)
            declared.add(rid)
    clean_counts: Dict[str, int] = {}
    for o in obs:
        rid = mapping.get(o.ob)
        if rid is None:
            continue
        if o.ok:
            rep.ok(rid, o.key, o.sample)
        else:
            rep.bad(rid, o.key, o.msg, o.loc)
    ea = emit.get(ctx)
    rep.analysed["e3_opcode_effects"] = len(ea.eff)
    rep.analysed["e3_assumed_branches"] = sorted(set(ea.assumed))
    rep.analysed["e3_residues"] = {k: repr(v) for k, v in getattr(ea, "residues", {}).items()}
    rep.analysed["e3_effect_table"] = {k: v.describe() for k, v in ea.eff.items()}
    if len(ea.eff) < 60:
        raise AnalysisError(f"only {len(ea.eff)} opcode effects derived (floor 60)")
