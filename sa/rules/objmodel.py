"""Object-model and boundary rules (C03, C08, C11)."""

from __future__ import annotations

import ast
import re
from typing import Dict, List, Optional, Set, Tuple

from ..core import AnalysisError, Func, call_name, const_str, norm, short, walk_no_nested
from ..util import guards_of

RUNTIME_MODULES = ("vm", "values", "context", "regex.vm", "regex.regex", "regex.parser", "regex.compiler", "regex.opcodes", "regex", "errors")
FORBIDDEN_NAMES = {"vars", "eval", "exec", "compile", "__import__", "globals", "locals", "importlib", "breakpoint", "open", "input"}
FORBIDDEN_ATTRS = {"__dict__", "__class__", "__globals__", "__getattribute__", "__subclasses__", "__bases__", "__mro__", "__code__", "__closure__", "__builtins__", "__reduce__", "__getattr__", "__setattr__", "func_globals"}


def _reflection_findings(tree: ast.AST, allow_node_dict: bool) -> List[Tuple[str, int, str]]:
    out = []
    for n in ast.walk(tree):
        if isinstance(n, ast.Call) and isinstance(n.func, ast.Name):
            if n.func.id in ("getattr", "hasattr", "setattr", "delattr"):
                if len(n.args) < 2 or const_str(n.args[1]) is None:
                    out.append((f"{n.func.id}({short(n.args[0], 20) if n.args else ''}, <non-literal>)", n.lineno, f"{n.func.id} with a computed attribute name ({short(n, 60)})"))
            elif n.func.id in FORBIDDEN_NAMES:
                out.append((f"{n.func.id}()", n.lineno, f"call of {n.func.id}()"))
            elif n.func.id == "type" and len(n.args) == 3:
                out.append(("type(name, bases, dict)", n.lineno, "dynamic class creation"))
        if isinstance(n, ast.Call) and isinstance(n.func, ast.Call) and isinstance(n.func.func, ast.Name) and n.func.func.id == "type":
            out.append((f"type({short(n.func.args[0], 20) if n.func.args else ''})(...)", n.lineno, f"instantiates the dynamic type of a value ({short(n, 50)})"))
        if isinstance(n, ast.Attribute) and n.attr in FORBIDDEN_ATTRS:
            if n.attr == "__dict__" and allow_node_dict:
                continue
            if n.attr == "__class__" and isinstance(getattr(n, "_parent", None), ast.Attribute) and getattr(n, "_parent").attr == "__name__":
                continue  # x.__class__.__name__ for messages
            out.append((f".{n.attr}", n.lineno, f"access to {norm(n)}"))
    return out


# audited reflective sites: key -> reason
AUDITED_REFLECTION = {
    "vm:VM._make_typed_array_method.subarray_fn:type(arr)(...)": "receiver is the JSTypedArray the method table was built for; creates another typed array of the same kind",
}


def rule_no_reflection(ctx, rep, rid: str) -> None:
    rep.rule(rid, "no reflective access path from script-controlled strings to host attributes: getattr/hasattr/setattr/delattr only with literal names, no vars/__dict__/__class__/__globals__/eval/exec/compile/__import__ in the runtime modules", floor=30)
    probe = ast.parse("def f(obj, key_str):\n    return getattr(obj, key_str, UNDEFINED)\n")
    if not _reflection_findings(probe, False):
        raise AnalysisError("positive control failed: reflective-access detector")
    n_refl = 0
    for f in ctx.tree.funcs:
        if f.module.name not in RUNTIME_MODULES:
            continue
        body = ast.Module(body=[], type_ignores=[])
        # analyse only this function's own nodes
        nodes = f.own_nodes()
        for n in nodes:
            if isinstance(n, ast.Call) and isinstance(n.func, ast.Name) and n.func.id in ("getattr", "hasattr", "setattr", "delattr"):
                n_refl += 1
        fake = ast.Module(body=[], type_ignores=[])
        for key, line, why in _own_reflection(f):
            full = f"{f.qual}:{key}"
            if full in AUDITED_REFLECTION:
                # re-check the audit premise: the receiver parameter is annotated JSTypedArray
                rep.ok(rid, full, {"audited": AUDITED_REFLECTION[full]})
            else:
                rep.bad(rid, full, f"{f.qual}: {why}: a script-chosen string could reach host internals", f"{f.module.rel}:{line}")
        rep.ok(rid, f"{f.qual}:scanned")
    rep.analysed["literal_reflective_calls"] = n_refl
    if n_refl < 20:
        raise AnalysisError(f"only {n_refl} getattr/hasattr calls classified (floor 20)")


def _own_reflection(f: Func) -> List[Tuple[str, int, str]]:
    out = []
    for n in f.own_nodes():
        if isinstance(n, ast.Call) and isinstance(n.func, ast.Name):
            if n.func.id in ("getattr", "hasattr", "setattr", "delattr"):
                if len(n.args) < 2 or const_str(n.args[1]) is None:
                    out.append((f"{n.func.id}(<computed name>)", n.lineno, f"{n.func.id} with a computed attribute name ({short(n, 60)})"))
            elif n.func.id in FORBIDDEN_NAMES and not _is_local_def(f, n.func.id):
                out.append((f"{n.func.id}()", n.lineno, f"call of builtin {n.func.id}()"))
            elif n.func.id == "type" and len(n.args) == 3:
                out.append(("type(name, bases, dict)", n.lineno, "dynamic class creation"))
        if isinstance(n, ast.Call) and isinstance(n.func, ast.Call) and isinstance(n.func.func, ast.Name) and n.func.func.id == "type":
            out.append((f"type({short(n.func.args[0], 20) if n.func.args else ''})(...)", n.lineno, f"instantiates the dynamic type of a value ({short(n, 50)})"))
        if isinstance(n, ast.Attribute) and n.attr in FORBIDDEN_ATTRS:
            par = getattr(n, "_parent", None)
            if n.attr == "__class__" and isinstance(par, ast.Attribute) and par.attr == "__name__":
                continue
            out.append((f".{n.attr}", n.lineno, f"access to {norm(n)}"))
    return out


def _is_local_def(f: Func, name: str) -> bool:
    g: Optional[Func] = f
    while g is not None:
        if name in g.children or name in g.params():
            return True
        g = g.parent
    return name in f.module.functions or name in f.module.imports


KEY_USE_OK_CALLS = {"to_string", "int", "float", "str", "isinstance", "len", "JSTypeError", "JSReferenceError"}
OBJ_API = {"get", "has", "set", "delete", "get_getter", "get_setter", "define_getter", "define_setter", "get_index", "set_index"}


def rule_key_discipline(ctx, rep, rid: str) -> None:
    rep.rule(rid, "in property get/set/delete the script-supplied key is only converted, compared with literals, tested for membership in literal name lists, passed to the object model's dictionary API or to the method-table factories", floor=20)
    vmcls = ctx.facts.vm_dispatcher()[0].cls
    _CTX_FOR_KEYS[:] = [ctx]
    for name in ("_get_property", "_set_property", "_delete_property"):
        f = ctx.tree.find_method(vmcls, name)
        if f is None:
            raise AnalysisError(f"VM.{name} not found")
        # local names holding literal lists
        literal_lists = {n.targets[0].id for n in f.own_nodes() if isinstance(n, ast.Assign) and isinstance(n.targets[0], ast.Name) and isinstance(n.value, (ast.List, ast.Tuple)) and all(isinstance(e, ast.Constant) for e in n.value.elts)}
        for n in f.own_nodes():
            if not (isinstance(n, ast.Name) and n.id in ("key", "key_str") and isinstance(n.ctx, ast.Load)):
                continue
            p = getattr(n, "_parent", None)
            ok, how = _key_use(n, p, literal_lists)
            key = f"{f.qual}:{n.id}:{how}"
            if ok:
                rep.ok(rid, key)
            else:
                rep.bad(rid, key, f"{f.qual} uses the script-supplied property name in `{short(p, 60)}`: property names must never select host attributes, dict entries of the implementation, or code", f"{f.module.rel}:{n.lineno}")
    # JSObject and subclasses: non-literal subscripts only on the property dictionaries / element lists
    vals = ctx.tree.mod("values")
    for ci in vals.classes.values():
        if not any(c.name == "JSObject" for c in ctx.tree.mro(ci)):
            continue
        for m in ci.methods.values():
            for n in m.own_nodes():
                if isinstance(n, ast.Subscript) and not isinstance(n.slice, (ast.Constant, ast.Slice)):
                    if not ({x.id for x in ast.walk(n.slice) if isinstance(x, ast.Name)} & {"key", "key_str", "name", "prop", "prop_name", "attr", "k"}):
                        continue  # integer/loop indices and typing subscripts are not script-chosen names
                    base = norm(n.value)
                    key = f"{m.qual}:{base}[...]"
                    if base in ("self._properties", "self._getters", "self._setters", "self._elements", "self._data", "self._buffer._data", "captures", "data", "packed"):
                        rep.ok(rid, key)
                    elif base.split(".")[-1] in ("_properties", "_getters", "_setters", "_elements", "_data"):
                        rep.ok(rid, key)  # the dictionaries / element lists of some object-model instance
                    elif isinstance(n.value, ast.Name) and any(isinstance(l, ast.For) and isinstance(l.target, ast.Name) and l.target.id == n.value.id and isinstance(l.iter, (ast.Tuple, ast.List)) and l.iter.elts and all(isinstance(e, ast.Attribute) and e.attr in ("_properties", "_getters", "_setters") for e in l.iter.elts) for l in m.own_nodes()):
                        rep.ok(rid, key)  # a loop variable ranging over the property dictionaries themselves
                    else:
                        rep.bad(rid, key, f"{m.qual} indexes {base} with a computed key", f"{m.module.rel}:{n.lineno}")


_CTX_FOR_KEYS: List = []
_SAFE_STR_METHODS = ("isascii", "isdigit", "isdecimal", "isalpha", "isalnum", "startswith", "endswith", "strip", "lower", "upper")


def _pure_text_helper(ctx, n: ast.Name, call: ast.Call) -> bool:
    """The key is handed to a module-level function of the repository that only inspects it as text: string
    predicates, comparisons with literals, constant subscripts, int()/len()/str() -- nothing that could use it to
    select an attribute, a dictionary entry or code."""
    from ..util import bind_args

    cs = ctx.cg.site_of_call.get(id(call))
    if cs is None or cs.kind != "resolved" or not cs.targets:
        return False
    for g in cs.targets:
        if isinstance(g.node, ast.Lambda) or g.parent is not None or g.cls is not None:
            return False
        pname = next((k for k, a in bind_args(call, g).items() if a is n), None)
        if pname is None:
            return False
        for u in g.own_nodes():
            if not (isinstance(u, ast.Name) and u.id == pname and isinstance(u.ctx, ast.Load)):
                continue
            q = getattr(u, "_parent", None)
            if isinstance(q, ast.Attribute) and q.attr in _SAFE_STR_METHODS and isinstance(getattr(q, "_parent", None), ast.Call):
                continue
            if isinstance(q, ast.Compare) and all(isinstance(o, ast.Constant) for o in [q.left] + list(q.comparators) if o is not u):
                continue
            if isinstance(q, ast.Subscript) and q.value is u and isinstance(q.slice, ast.Constant):
                continue
            if isinstance(q, ast.Call) and isinstance(q.func, ast.Name) and q.func.id in ("int", "len", "str", "float") and u in q.args:
                continue
            if isinstance(q, (ast.BoolOp, ast.UnaryOp, ast.IfExp, ast.Return)):
                continue
            return False
    return True


def _known_literal_name(n: ast.Name, literal_lists: Set[str]) -> bool:
    """A condition that holds at this use says `key in <literal list of names>`."""
    from ..util import atoms, known_conditions

    top = n
    while getattr(top, "_parent", None) is not None and not isinstance(top, (ast.FunctionDef, ast.AsyncFunctionDef)):
        top = top._parent
    for t, pol in known_conditions(n, top):
        for a, p in atoms(t, pol):
            if p and isinstance(a, ast.Compare) and len(a.ops) == 1 and isinstance(a.ops[0], ast.In) and norm(a.left) == n.id:
                r = a.comparators[0]
                if (isinstance(r, ast.Name) and r.id in literal_lists) or (isinstance(r, (ast.Tuple, ast.List, ast.Set)) and all(isinstance(e, ast.Constant) for e in r.elts)):
                    return True
    return False


def _known_host_int(n: ast.Name) -> bool:
    """The key is, at this use, a host int: a condition on the way tested type(key) is int / isinstance(key, int).
    A number cannot name a host attribute or an entry of an implementation dictionary."""
    from ..util import known_conditions
    from .textparse import _int_narrowed

    top = n
    while getattr(top, "_parent", None) is not None and not isinstance(top, (ast.FunctionDef, ast.AsyncFunctionDef)):
        top = top._parent
    for t, pol in known_conditions(n, top):
        if n.id in _int_narrowed(t, pol):
            return True
    # the later operands of the `and` that holds the type test
    ch, pp = n, getattr(n, "_parent", None)
    while pp is not None and not isinstance(pp, ast.stmt):
        if isinstance(pp, ast.BoolOp) and isinstance(pp.op, ast.And):
            for v in pp.values:
                if v is ch or any(x is ch for x in ast.walk(v)):
                    break
                if n.id in _int_narrowed(v, True):
                    return True
        ch, pp = pp, getattr(pp, "_parent", None)
    return False


def _key_use(n: ast.Name, p: Optional[ast.AST], literal_lists: Set[str]) -> Tuple[bool, str]:
    if isinstance(p, ast.Call) and isinstance(p.func, ast.Name) and p.func.id == "type" and len(p.args) == 1:
        gp = getattr(p, "_parent", None)
        if isinstance(gp, ast.Compare) and len(gp.ops) == 1 and isinstance(gp.ops[0], (ast.Is, ast.IsNot, ast.Eq, ast.NotEq)) and all(isinstance(o, ast.Name) and o.id in ("int", "float", "str", "bool") for o in [gp.left] + list(gp.comparators) if o is not p):
            return True, "type-test"
    if _known_literal_name(n, literal_lists):
        # the key is one of a literal list of names here: it cannot select anything the list does not name
        if isinstance(p, ast.Subscript) and p.slice is n and isinstance(p.value, ast.Attribute):
            return True, "table-of-listed-names"
        if isinstance(p, ast.Call) and n in p.args and isinstance(p.func, ast.Attribute) and p.func.attr in ("get", "pop", "setdefault") and isinstance(p.func.value, ast.Attribute):
            return True, "table-of-listed-names"
    if _known_host_int(n):
        if isinstance(p, ast.Compare):
            return True, "number-compare"
        if isinstance(p, ast.Subscript) and p.slice is n:
            return True, "sequence-index (the range is the subscript rule's obligation)"
    if isinstance(p, ast.Call):
        fn = p.func
        if n in p.args or any(k.value is n for k in p.keywords):
            if isinstance(fn, ast.Name) and fn.id in KEY_USE_OK_CALLS:
                return True, f"call:{fn.id}"
            if isinstance(fn, ast.Attribute) and fn.attr in OBJ_API:
                return True, f"object-api:{fn.attr}"
            if isinstance(fn, ast.Attribute) and norm(fn.value) == "self" and fn.attr.startswith("_make_") and fn.attr.endswith("_method"):
                return True, "method-factory"
            if isinstance(fn, ast.Name) and _CTX_FOR_KEYS and _pure_text_helper(_CTX_FOR_KEYS[0], n, p):
                return True, f"text-helper:{fn.id}"
            return False, f"call:{short(fn, 30)}"
    if isinstance(p, ast.Compare):
        others = [p.left] + list(p.comparators)
        others = [o for o in others if o is not n]
        if all(isinstance(o, ast.Constant) for o in others):
            return True, "compare-literal"
        if all(isinstance(o, (ast.Tuple, ast.List)) and all(isinstance(e, ast.Constant) for e in o.elts) for o in others):
            return True, "in-literal-list"
        if all(isinstance(o, ast.Name) and o.id in literal_lists for o in others):
            return True, "in-literal-list"
        if all(isinstance(o, ast.Call) and norm(o.func) == "str" for o in others):
            return True, "compare-canonical-index"
        if all(isinstance(op, (ast.In, ast.NotIn)) for op in p.ops) and p.left is n and all(isinstance(o, ast.Attribute) and o.attr in ("_properties", "_getters", "_setters") for o in others):
            return True, "in-property-dictionary"
        return False, "compare"
    if isinstance(p, ast.Subscript) and p.slice is n and isinstance(p.value, ast.Attribute) and p.value.attr in ("_properties", "_getters", "_setters"):
        return True, f"property-dictionary:{p.value.attr}"
    if isinstance(p, ast.FormattedValue):
        return True, "message"
    if isinstance(p, ast.IfExp):
        return True, "conversion"
    if isinstance(p, ast.Assign):
        return True, "alias"
    if isinstance(p, ast.UnaryOp):
        return True, "truthiness"
    return False, type(p).__name__


def rule_prototype_values(ctx, rep, rid: str) -> None:
    rep.rule(rid, "the prototype link only ever holds None or a JSObject: every assignment to ._prototype is a fresh/known object, None, or a script value guarded by isinstance(…, JSObject)", floor=15)
    for f in ctx.tree.funcs:
        if f.module.name not in ("vm", "values", "context"):
            continue
        for n in f.own_nodes():
            if not isinstance(n, ast.Assign):
                continue
            for t in n.targets:
                if not (isinstance(t, ast.Attribute) and t.attr == "_prototype"):
                    continue
                v = n.value
                key = f"{f.qual}:{norm(t)} = {short(v, 40)}"
                loc = f"{f.module.rel}:{n.lineno}"
                ok = False
                why = ""

                def is_function_value(e) -> bool:
                    """e is known to be a script function object (not a JSObject): its `_prototype` attribute is
                    the function's `prototype` PROPERTY, which may hold any script value."""
                    if not isinstance(e, ast.Name):
                        return False
                    if any(pol and norm(tst) == f"isinstance({e.id}, JSFunction)" for tst, pol in guards_of(n, f.node)):
                        return True
                    return any(isinstance(d, ast.Call) and call_name(d) == "JSFunction" for d in _defs_of(f, e.id))

                if is_function_value(t.value):
                    rep.ok(rid, key, {"because": "the prototype PROPERTY of a function object (any script value); every site that links an instance to it is checked separately"})
                    continue
                if isinstance(v, ast.Constant) and v.value is None:
                    ok, why = True, "None"
                elif isinstance(v, ast.Attribute) and v.attr in ("_prototype", "_object_prototype", "_array_prototype") and not is_function_value(v.value):
                    ok, why = True, "an existing prototype link"
                elif isinstance(v, ast.Name):
                    # guarded by isinstance(v, JSObject) / constructed locally / a parameter of JSObject.__init__
                    g = [norm(tst) for tst, pol in guards_of(n, f.node) if pol]
                    if any(f"isinstance({v.id}, JSObject)" in x for x in g):
                        ok, why = True, "isinstance guard"
                    else:
                        for d in _defs_of(f, v.id):
                            if isinstance(d, ast.Call) and call_name(d) in ("JSObject", "JSArray", "JSCallableObject"):
                                ok, why = True, "constructed locally"
                        if f.name == "__init__" and v.id in f.params():
                            ok, why = True, "constructor parameter (checked at every call site below)"
                if ok:
                    rep.ok(rid, key, {"because": why})
                else:
                    rep.bad(rid, key, f"{f.qual} stores {short(v, 40)} in a prototype link without proving it is None or a JSObject: a primitive or host object there breaks every property lookup", loc)
    # JSObject(...) constructor calls with an explicit prototype argument
    for cs in ctx.cg.sites:
        if cs.ext and cs.ext.endswith(":JSObject") and cs.call.args:
            a = cs.call.args[0]
            key = f"{cs.func.qual}:JSObject({short(a, 30)})"
            if isinstance(a, ast.Name) and any(isinstance(d, ast.Call) and call_name(d) == "JSObject" for d in _defs_of(cs.func, a.id)):
                rep.ok(rid, key)
            elif isinstance(a, ast.Constant) and a.value is None:
                rep.ok(rid, key)
            elif isinstance(a, ast.Attribute) and a.attr in ("_object_prototype", "_array_prototype"):
                rep.ok(rid, key, {"because": "one of the context's own prototype objects"})
            elif isinstance(a, ast.Name) and a.id in cs.func.params() and not _defs_of(cs.func, a.id):
                # a parameter: every call of the function passes None or a proven object
                from ..util import bind_args

                callers = [c2 for c2 in ctx.cg.sites if c2.kind == "resolved" and any(t is cs.func for t in c2.targets)]
                unproven = []
                for c2 in callers:
                    arg = bind_args(c2.call, cs.func).get(a.id)
                    if arg is None or _proven_object(ctx, arg, c2.func):
                        continue
                    unproven.append(f"{c2.func.qual}:{c2.line} passes {short(arg, 30)}")
                d = cs.func.node.args.defaults
                if callers and not unproven:
                    rep.ok(rid, key, {"because": f"parameter; all {len(callers)} call sites pass None or a proven object"})
                else:
                    rep.bad(rid, key, f"JSObject constructed with the parameter {a.id} as prototype, and {unproven[0] if unproven else 'no call site was found'}", f"{cs.func.module.rel}:{cs.line}")
            else:
                rep.bad(rid, key, f"JSObject constructed with prototype {short(a, 30)} of unproven kind", f"{cs.func.module.rel}:{cs.line}")


def _proven_object(ctx, e: ast.AST, f: Func) -> bool:
    """e is None or certainly a JSObject: constructed in f, or the `prototype` property of a constructor that a
    factory has just built (the factory installs a freshly constructed object there) in code no script can
    have touched yet."""
    if isinstance(e, ast.Constant) and e.value is None:
        return True
    if isinstance(e, ast.Name):
        ds = _defs_of(f, e.id)
        return bool(ds) and all(isinstance(d, ast.Call) and call_name(d) in ("JSObject", "JSArray", "JSCallableObject") for d in ds)
    if isinstance(e, ast.Call) and isinstance(e.func, ast.Attribute) and e.func.attr == "get" and e.args and const_str(e.args[0]) == "prototype" and isinstance(e.func.value, ast.Name):
        if id(f) in ctx.facts.script_reachable():
            return False  # a script may have replaced the property by now
        ds = _defs_of(f, e.func.value.id)
        if len(ds) != 1 or not isinstance(ds[0], ast.Call):
            return False
        cs = ctx.cg.site_of_call.get(id(ds[0]))
        if cs is None or cs.kind != "resolved" or not cs.targets:
            return False
        for g in cs.targets:
            rets = [n.value for n in g.own_nodes() if isinstance(n, ast.Return)]
            if not rets or not all(isinstance(r, ast.Name) for r in rets):
                return False
            for r in rets:
                installs = [n for n in g.own_nodes() if isinstance(n, ast.Call) and isinstance(n.func, ast.Attribute) and n.func.attr == "set" and norm(n.func.value) == r.id and len(n.args) == 2 and const_str(n.args[0]) == "prototype"]
                if not installs or not all(isinstance(i.args[1], ast.Name) and _proven_object(ctx, i.args[1], g) and not (isinstance(i.args[1], ast.Constant)) for i in installs):
                    return False
        return True
    return False


def _defs_of(f: Func, name: str) -> List[ast.AST]:
    out = []
    g: Optional[Func] = f
    while g is not None:
        for n in g.own_nodes():
            if isinstance(n, ast.Assign) and any(isinstance(t, ast.Name) and t.id == name for t in n.targets):
                out.append(n.value)
        g = g.parent
    return out


def rule_host_callable_surface(ctx, rep, rid: str) -> None:
    rep.rule(rid, "a host callable held by a script exposes only call/apply/bind (every other property name reads undefined), and those wrappers pass only script values", floor=1)
    vmcls = ctx.facts.vm_dispatcher()[0].cls
    gp = ctx.tree.find_method(vmcls, "_get_property")
    found = False
    for n in gp.own_nodes():
        if isinstance(n, ast.If) and norm(n.test) == "callable(obj)":
            found = True
            key = "vm:VM._get_property:callable-branch"
            names = None
            ok = True
            for s in n.body:
                if isinstance(s, ast.If) and isinstance(s.test, ast.Compare) and isinstance(s.test.comparators[0], (ast.Tuple, ast.List)):
                    names = sorted(const_str(e) for e in s.test.comparators[0].elts)
                    if not all(isinstance(x, ast.Return) and isinstance(x.value, ast.Call) and norm(x.value.func) == "self._make_callable_method" for x in s.body):
                        ok = False
                elif isinstance(s, ast.Return):
                    if norm(s.value) != "UNDEFINED":
                        ok = False
                else:
                    ok = False
            if ok and names == ["apply", "bind", "call"]:
                rep.ok(rid, key, {"names": names})
            else:
                rep.bad(rid, key, f"the host-callable branch of property lookup exposes more than call/apply/bind -> undefined (names: {names})", f"{gp.module.rel}:{n.lineno}")
    if not found:
        raise AnalysisError("callable(obj) branch of _get_property not found")


def rule_internal_iterators(ctx, rep, rid: str) -> None:
    rep.rule(rid, "the interpreter's internal iterator objects are created only by the *_INIT handlers and inspected only by the *_NEXT handlers", floor=2)
    df, chain = ctx.facts.vm_dispatcher()
    for cls, init, nxt in (("ForInIterator", "FOR_IN_INIT", "FOR_IN_NEXT"), ("ForOfIterator", "FOR_OF_INIT", "FOR_OF_NEXT")):
        allowed_lines: Set[int] = set()
        for opn in (init, nxt):
            for s in chain.body_of(opn) or []:
                for x in ast.walk(s):
                    allowed_lines.add(getattr(x, "lineno", -1))
        bad = []
        for f in ctx.tree.funcs:
            for n in f.own_nodes():
                if isinstance(n, ast.Name) and n.id == cls and not (f is df and n.lineno in allowed_lines):
                    bad.append((f, n.lineno))
        key = f"{cls}:confined"
        if bad:
            f, line = bad[0]
            rep.bad(rid, key, f"{cls} is referenced outside its INIT/NEXT handlers ({f.qual}:{line}): internal iterator objects must never be produced or consumed elsewhere", f"{f.module.rel}:{line}")
        else:
            rep.ok(rid, key)


def rule_native_results_normalised(ctx, rep, rid: str) -> None:
    rep.rule(rid, "every result of a dynamically called host function that the interpreter pushes or returns as a script value has Python None mapped to undefined; no literal None is stored as a property value", floor=3)
    vmcls = ctx.facts.vm_dispatcher()[0].cls
    for m in vmcls.methods.values():
        for cs in ctx.cg.sites_of[id(m)]:
            if cs.kind != "dynamic":
                continue
            call = cs.call
            p = getattr(call, "_parent", None)
            key = f"{m.qual}:{short(call, 40)}"
            loc = f"{m.module.rel}:{cs.line}"
            if isinstance(p, ast.Assign) and isinstance(p.targets[0], ast.Name):
                var = p.targets[0].id
                uses = [x for x in m.own_nodes() if isinstance(x, ast.Name) and x.id == var and isinstance(x.ctx, ast.Load) and x.lineno >= p.lineno]
                norm_ok = any(isinstance(getattr(u, "_parent", None), ast.Compare) and norm(getattr(u, "_parent")) in (f"{var} is not None", f"{var} is None") for u in uses)
                pushed = any(isinstance(getattr(u, "_parent", None), ast.Call) and norm(getattr(u, "_parent").func) == "self.stack.append" for u in uses)
                returned = any(isinstance(getattr(u, "_parent", None), ast.Return) for u in uses)
                if norm_ok:
                    rep.ok(rid, key, {"normalised": f"{var} if {var} is not None else UNDEFINED"})
                elif pushed or returned:
                    rep.bad(rid, key, f"{m.qual} hands the raw result of a host call to the script ({'pushed' if pushed else 'returned'}) without mapping None to undefined: the script holds a value of no JavaScript type", loc)
                else:
                    rep.ok(rid, key, {"result": "not exposed"})
            elif isinstance(p, ast.Return):
                rep.bad(rid, key, f"{m.qual} returns the raw result of a host call as a script value without mapping None to undefined", loc)
            elif isinstance(p, ast.Call) and norm(p.func) == "self.stack.append":
                rep.bad(rid, key, f"{m.qual} pushes the raw result of a host call without mapping None to undefined", loc)
            else:
                rep.ok(rid, key, {"result": "discarded"})
    for f in ctx.tree.funcs:
        if f.module.name not in ("vm", "context", "values"):
            continue
        for n in f.own_nodes():
            if isinstance(n, ast.Call) and isinstance(n.func, ast.Attribute) and n.func.attr == "set" and len(n.args) == 2 and isinstance(n.args[1], ast.Constant) and n.args[1].value is None and const_str(n.args[0]) is not None:
                rep.bad(rid, f"{f.qual}:set({const_str(n.args[0])!r}, None)", f"{f.qual} stores Python None as the value of property {const_str(n.args[0])!r}: typeof says 'undefined' but === undefined is false", f"{f.module.rel}:{n.lineno}")
    # attributes initialised to None and returned through getattr(obj, "<attr>", ...)
    gp = ctx.tree.find_method(vmcls, "_get_property")
    for n in gp.own_nodes():
        if isinstance(n, ast.Return) and isinstance(n.value, ast.Call) and norm(n.value.func) == "getattr" and len(n.value.args) >= 2:
            attr = const_str(n.value.args[1])
            none_init = False
            for ci in ctx.tree.mod("values").classes.values():
                init = ci.methods.get("__init__")
                if init:
                    for x in init.own_nodes():
                        if isinstance(x, ast.Assign) and norm(x.targets[0]) == f"self.{attr}" and isinstance(x.value, ast.Constant) and x.value.value is None:
                            none_init = True
            key = f"{gp.qual}:getattr(.., {attr!r})"
            if none_init and "or UNDEFINED" not in norm(getattr(n, "value")) and not isinstance(getattr(n.value, "_parent", None), ast.BoolOp):
                rep.bad(rid, key, f"property lookup returns the host attribute {attr}, which is initialised to Python None: the script receives None", f"{gp.module.rel}:{n.lineno}")
            else:
                rep.ok(rid, key)


def _may_be_none(e: ast.AST, f: Func, depth: int = 0) -> bool:
    if isinstance(e, ast.Constant) and e.value is None:
        return True
    if isinstance(e, ast.IfExp):
        return _may_be_none(e.body, f, depth) or _may_be_none(e.orelse, f, depth)
    if isinstance(e, ast.BoolOp) and isinstance(e.op, ast.Or):
        return _may_be_none(e.values[-1], f, depth)
    if isinstance(e, ast.Name) and depth < 2:
        ds = _defs_of(f, e.id)
        return any(_may_be_none(d, f, depth + 1) for d in ds)
    return False


def rule_no_none_into_script_values(ctx, rep, rid: str) -> None:
    rep.rule(rid, "no call passes a possibly-None host value for a parameter that the interpreter treats as a script value (this, arguments), unless the callee maps None to undefined itself; such parameters do not default to None", floor=20)
    vmcls = ctx.facts.vm_dispatcher()[0].cls
    from ..util import bind_args

    def normalises(m: Func, p: str, depth: int = 0) -> bool:
        txt = " ; ".join(norm(s) for s in m.body())
        if f"{p} if {p} is not None else UNDEFINED" in txt or f"UNDEFINED if {p} is None else {p}" in txt or f"if {p} is None" in txt or f"{p} or UNDEFINED" in txt:
            return True
        if depth >= 2:
            return False
        # the parameter is only handed on, to callees that map None themselves
        uses = [u for u in m.own_nodes() if isinstance(u, ast.Name) and u.id == p and isinstance(u.ctx, ast.Load)]
        if not uses:
            return False
        for u in uses:
            par = getattr(u, "_parent", None)
            if isinstance(par, ast.keyword):
                par = getattr(par, "_parent", None)
            if not isinstance(par, ast.Call):
                return False
            cs = ctx.cg.site_of_call.get(id(par))
            if cs is None or cs.kind != "resolved" or not cs.targets:
                return False
            for t in cs.targets:
                q = next((k for k, a in bind_args(par, t).items() if a is u), None)
                if q is None or not normalises(t, q, depth + 1):
                    return False
        return True

    value_params: Dict[int, List[str]] = {}
    for m in vmcls.methods.values():
        ps = []
        a = m.node.args
        defaults = dict(zip([x.arg for x in a.args][len(a.args) - len(a.defaults):], a.defaults))
        for x in a.args:
            if x.annotation is not None and norm(x.annotation) in ("JSValue", "Optional[JSValue]") and x.arg in ("this_val", "this_value", "value", "new_target"):
                ps.append(x.arg)
                d = defaults.get(x.arg)
                key = f"{m.qual}:{x.arg}:default"
                if d is not None and isinstance(d, ast.Constant) and d.value is None and not normalises(m, x.arg) and x.arg != "new_target":
                    rep.bad(rid, key, f"{m.qual}: parameter {x.arg} is a script value but defaults to Python None and is used without mapping None to undefined", m.loc)
                else:
                    rep.ok(rid, key)
        value_params[id(m)] = ps
    for cs in ctx.cg.sites:
        if cs.kind != "resolved":
            continue
        for t in cs.targets:
            ps = value_params.get(id(t))
            if not ps:
                continue
            b = bind_args(cs.call, t)
            for p in ps:
                a = b.get(p)
                if a is None or p == "new_target":
                    continue
                key = f"{cs.func.qual}->{t.name}({p}={short(a, 30)})"
                if _may_be_none(a, cs.func) and not normalises(t, p):
                    rep.bad(rid, key, f"{cs.func.qual} passes {short(a, 40)}, which can be Python None, as `{p}` of {t.name}, and {t.name} does not map None to undefined: script code can then read a value of no JavaScript type (e.g. through `this`)", f"{cs.func.module.rel}:{cs.line}")
                else:
                    rep.ok(rid, key)


# ------------------------------------------------------------------------ C08
def rule_inherited_visibility(ctx, rep, rid: str) -> None:
    rep.rule(rid, "operations that must see inherited properties (in, property read, accessor lookup, instanceof, isPrototypeOf) consult the prototype link; own-only operations (hasOwnProperty, keys/values/entries) do not", floor=5)
    df, chain = ctx.facts.vm_dispatcher()
    cg = ctx.cg

    def reads_proto(stmts: List[ast.stmt], depth: int = 2) -> bool:
        for s in stmts:
            for n in walk_no_nested(s):
                if isinstance(n, ast.Attribute) and n.attr == "_prototype":
                    return True
                if isinstance(n, ast.Constant) and n.value == "_prototype":
                    return True
                if isinstance(n, ast.Call) and depth > 0:
                    cs = cg.site_of_call.get(id(n))
                    if cs and cs.kind == "resolved":
                        for t in cs.targets:
                            if reads_proto(t.body(), depth - 1):
                                return True
        return False

    for opn in ("IN", "INSTANCEOF", "GET_PROP"):
        body = chain.body_of(opn)
        key = f"{df.qual}:{opn}:walks-prototype-chain"
        if body is None:
            raise AnalysisError(f"no handler for {opn}")
        if reads_proto(body):
            rep.ok(rid, key)
        else:
            rep.bad(rid, key, f"the {opn} handler never consults the prototype link (it only asks for own properties): inherited properties are invisible to it", f"{df.module.rel}:{body[0].lineno}")
    for qual, must in (("isPrototypeOf", True), ("hasOwnProperty", False), ("keys_fn", False), ("values_fn", False), ("entries_fn", False)):
        for f in ctx.tree.funcs:
            if f.name in (qual, "proto_" + qual, qual + "_fn") and f.module.name in ("context", "vm"):
                r = any(isinstance(n, ast.Attribute) and n.attr == "_prototype" or (isinstance(n, ast.Constant) and n.value == "_prototype") for n in f.own_nodes())
                key = f"{f.qual}:{'walks' if must else 'own-only'}"
                if r == must:
                    rep.ok(rid, key)
                else:
                    rep.bad(rid, key, f"{f.qual} {'does not consult' if must else 'consults'} the prototype link", f.loc)


def _chain_branch(f: Func, var: str, cls: str):
    """Body of the `isinstance(var, cls)` branch in f's top-level receiver dispatch chain."""
    for s_ in f.body():
        if isinstance(s_, ast.If):
            node = s_
            while isinstance(node, ast.If):
                t = node.test
                if isinstance(t, ast.Call) and norm(t.func) == "isinstance" and isinstance(t.args[0], ast.Name) and t.args[0].id == var:
                    k = t.args[1]
                    names = [k.id] if isinstance(k, ast.Name) else [c.id for c in getattr(k, "elts", []) if isinstance(c, ast.Name)]
                    if cls in names:
                        return node.body
                node = node.orelse[0] if len(node.orelse) == 1 and isinstance(node.orelse[0], ast.If) else None
    return None


def _chain_classes(f: Func, var: str) -> List[Tuple[str, int]]:
    out = []
    for s in f.body():
        if isinstance(s, ast.If):
            node = s
            while isinstance(node, ast.If):
                t = node.test
                if isinstance(t, ast.Call) and norm(t.func) == "isinstance" and isinstance(t.args[0], ast.Name) and t.args[0].id == var:
                    k = t.args[1]
                    for c in ([k] if isinstance(k, ast.Name) else getattr(k, "elts", [])):
                        if isinstance(c, ast.Name):
                            out.append((c.id, node.lineno))
                node = node.orelse[0] if len(node.orelse) == 1 and isinstance(node.orelse[0], ast.If) else None
    return out


def rule_get_set_agreement(ctx, rep, rid: str) -> None:
    rep.rule(rid, "every receiver class that property read special-cases and that can hold state is handled by property write (itself or through a superclass branch); writes never fall off the end silently for an object-like receiver", floor=4)
    vmcls = ctx.facts.vm_dispatcher()[0].cls
    gp = ctx.tree.find_method(vmcls, "_get_property")
    sp = ctx.tree.find_method(vmcls, "_set_property")
    gc = [c for c, _ in _chain_classes(gp, "obj")]
    sc = [c for c, _ in _chain_classes(sp, "obj")]
    if len(gc) < 5 or len(sc) < 2:
        raise AnalysisError("receiver dispatch chains of _get_property/_set_property not recognised")
    for c in gc:
        ci = ctx.tree.resolve_class_name(gp.module, c)
        if ci is None:
            continue  # primitives
        anc = [x.name for x in ctx.tree.mro(ci)]
        key = f"_set_property:{c}"
        if any(a in sc for a in anc):
            rep.ok(rid, key, {"handled_by": [a for a in anc if a in sc][0]})
            # the handling branch must do something on every path: store, call into the object model, or throw
            hb = [a for a in anc if a in sc][0]
            branch = _chain_branch(sp, "obj", hb)
            if branch is not None:
                from ..cfg import CFG

                cfg = CFG(branch)

                def effect(nd) -> bool:
                    a = nd.ast if nd.ast is not None else None
                    if nd.kind == "raise":
                        return True
                    if a is None or nd.kind in ("test", "iter"):
                        return False
                    if isinstance(a, ast.Return) and any(pol and isinstance(t_, ast.Compare) and len(t_.ops) == 1 and isinstance(t_.ops[0], ast.In) and isinstance(t_.comparators[0], ast.Attribute) and "getter" in t_.comparators[0].attr for t_, pol in guards_of(a, sp.node)):
                        return True  # the key is an accessor without a setter: ECMAScript ignores the assignment
                    for x in ast.walk(a):
                        if isinstance(x, (ast.Assign, ast.AugAssign)):
                            tg = x.targets if isinstance(x, ast.Assign) else [x.target]
                            if any(isinstance(t_, (ast.Attribute, ast.Subscript)) for t_ in tg):
                                return True
                        if isinstance(x, ast.Call) and isinstance(x.func, ast.Attribute) and not norm(x.func).startswith(("math.", "str.")) and x.func.attr not in ("is_integer", "startswith", "endswith", "get_setter", "get_getter", "has", "get"):
                            return True
                        if isinstance(x, ast.Raise):
                            return True
                    return False

                blocked = {nd.id for nd in cfg.nodes if effect(nd)}
                pth = cfg.path_avoiding(cfg.entry.id, lambda nd: nd.id == cfg.exit.id, blocked)
                k2 = f"_set_property:{hb}:every-path-writes"
                if pth is None:
                    rep.ok(rid, k2)
                elif not any(f_.key == k2 for f_ in rep.findings):
                    from ..cfg import path_str

                    rep.bad(rid, k2, f"the property-write branch for {hb} has a path [{path_str(pth)}] that neither stores, calls into the object model nor throws: the assignment is silently dropped", f"{sp.module.rel}:{branch[0].lineno}")
        else:
            rep.bad(rid, key, f"property reads special-case {c} but property writes have no branch for it (nor for a superclass): assignments such as F.prototype = {{…}} or F.x = 1 are silently dropped", sp.loc)


def _call_protocol_helpers(ctx, vmcls) -> List[Func]:
    """Methods that take a host callable as a parameter, test it for the this-taking wrapper class and call it
    with `this` first in that case and without it otherwise."""
    out = []
    for m in vmcls.all_methods:
        ps = m.params()
        for p in ps:
            if p == "self":
                continue
            tests = [n for n in m.own_nodes() if isinstance(n, ast.If) and norm(n.test) == f"isinstance({p}, JSBoundMethod)"]
            if not tests:
                continue
            t = tests[0]
            with_this = any(isinstance(c, ast.Call) and isinstance(c.func, ast.Name) and c.func.id == p and c.args and not isinstance(c.args[0], ast.Starred) for s_ in t.body for c in ast.walk(s_))
            without = any(isinstance(c, ast.Call) and isinstance(c.func, ast.Name) and c.func.id == p and c.args and isinstance(c.args[0], ast.Starred) for s_ in t.orelse for c in ast.walk(s_))
            if with_this and without:
                out.append(m)
    return out


def rule_call_protocol(ctx, rep, rid: str) -> None:
    rep.rule(rid, "every interpreter site that calls a script-held callable distinguishes the three callee kinds (script function, this-taking bound native, plain host callable) the way method calls do, itself or through the interpreter's call helper", floor=5)
    vmcls = ctx.facts.vm_dispatcher()[0].cls
    helpers = _call_protocol_helpers(ctx, vmcls)
    hids = {id(h) for h in helpers}
    for h in helpers:
        rep.ok(rid, f"{h.qual}:protocol-helper", {"distinguishes": "JSBoundMethod(this, *args) / plain(*args)"})
    funcs = [f for f in ctx.tree.funcs if f.module.name in ("vm", "context") and (f.cls is vmcls or f.module.name == "context")]
    for f in funcs:
        if id(f) in hids:
            continue
        for n in f.own_nodes():
            if isinstance(n, ast.If) and isinstance(n.test, ast.Call) and norm(n.test.func) == "isinstance" and len(n.test.args) == 2 and norm(n.test.args[1]) == "JSFunction" and isinstance(n.test.args[0], ast.Name):
                var = n.test.args[0].id
                node = n
                kinds = ["JSFunction"]
                plain_bodies = []
                while len(node.orelse) == 1 and isinstance(node.orelse[0], ast.If):
                    node = node.orelse[0]
                    t = norm(node.test)
                    if t == f"isinstance({var}, JSBoundMethod)":
                        kinds.append("JSBoundMethod")
                    elif t == f"callable({var})":
                        kinds.append("callable")
                        plain_bodies.append(node.body)
                if node.orelse and not (len(node.orelse) == 1 and isinstance(node.orelse[0], ast.If)):
                    plain_bodies.append(node.orelse)
                direct = via = False
                for body in plain_bodies:
                    for s_ in body:
                        for c in ast.walk(s_):
                            if isinstance(c, ast.Call) and isinstance(c.func, ast.Name) and c.func.id == var:
                                direct = True
                            if isinstance(c, ast.Call) and c.args and isinstance(c.args[0], ast.Name) and c.args[0].id == var:
                                cs = ctx.cg.site_of_call.get(id(c))
                                if cs and any(id(t_) in hids for t_ in cs.targets):
                                    via = True
                if not direct and not via:
                    continue
                key = f"{f.qual}:{var}"
                if direct and "JSBoundMethod" not in kinds:
                    rep.bad(rid, key, f"{f.qual} calls `{var}` as a plain host callable whenever it is not a script function: a this-taking bound native (Object.prototype.toString/valueOf/hasOwnProperty, Array.prototype.sort) receives the first argument as `this`, or raises a host TypeError when called with none", f"{f.module.rel}:{n.lineno}")
                else:
                    rep.ok(rid, key, {"kinds": kinds, "through_helper": via})


def rule_no_stale_link_caches(ctx, rep, rid: str) -> None:
    """C08-R7: an object must not memoise data derived from OTHER objects' mutable links (e.g. a flattened
    prototype chain): re-linking an ancestor cannot invalidate the caches of its descendants."""
    rep.rule(rid, "no object-model class caches data computed from other objects' mutable prototype links (a flattened chain, an inherited-accessor table): such a cache goes stale when an ancestor is re-linked", floor=1)
    vals = ctx.tree.mod("values")
    found = 0
    for ci in vals.classes.values():
        if not any(c.name == "JSObject" for c in ctx.tree.mro(ci)):
            continue
        # attributes written outside __init__ (mutable links)
        mutable = set()
        for m in ci.all_methods:
            if m.name == "__init__":
                continue
            for n in m.own_nodes():
                if isinstance(n, ast.Assign):
                    for t in n.targets:
                        if isinstance(t, ast.Attribute) and norm(t.value) == "self":
                            mutable.add(t.attr)
        mutable |= {"_prototype"}
        for m in ci.all_methods:
            for n in m.own_nodes():
                # lazy fill: `if <x> is None:` ... `self.A = <computed>` inside
                if isinstance(n, ast.If) and isinstance(n.test, ast.Compare) and isinstance(n.test.ops[0], ast.Is) and isinstance(n.test.comparators[0], ast.Constant) and n.test.comparators[0].value is None:
                    stores = [a for s in n.body for a in ast.walk(s) if isinstance(a, ast.Assign) and any(isinstance(t, ast.Attribute) and norm(t.value) == "self" for t in a.targets)]
                    if not stores:
                        continue
                    reads_other = [x for s in n.body for x in ast.walk(s) if isinstance(x, ast.Attribute) and isinstance(x.value, ast.Name) and x.value.id != "self" and x.attr in mutable and isinstance(x.ctx, ast.Load)]
                    attr = [t.attr for a in stores for t in a.targets if isinstance(t, ast.Attribute)][0]
                    found += 1
                    key = f"{m.qual}:cache self.{attr}"
                    if reads_other:
                        rep.bad(rid, key, f"{m.qual} fills the cache self.{attr} from {norm(reads_other[0])}, a mutable link of another object: when that object is re-linked (Object.setPrototypeOf on an ancestor, F.prototype re-assignment) this object keeps answering from the stale chain", f"{m.module.rel}:{n.lineno}")
                    else:
                        rep.ok(rid, key)
    if found == 0:
        rep.ok(rid, "values:no-lazy-caches")


# ------------------------------------------------------------------------ C11
_SCALARS = {"bool", "int", "float", "str"}


def _scalar_tuple(e: ast.AST, f, ctx, depth: int = 0) -> bool:
    """Does e denote a tuple of the host scalar types only (directly, through a local alias, a class attribute or a
    module constant)?"""
    if depth > 3:
        return False
    if isinstance(e, ast.Name) and e.id in _SCALARS:
        return True
    if isinstance(e, ast.Tuple):
        return bool(e.elts) and all(isinstance(x, ast.Name) and x.id in _SCALARS for x in e.elts)
    if isinstance(e, ast.Name):
        vals = [a.value for a in f.own_nodes() if isinstance(a, ast.Assign) and any(isinstance(t, ast.Name) and t.id == e.id for t in a.targets)]
        if vals:
            return all(_scalar_tuple(v, f, ctx, depth + 1) for v in vals)
        for n in f.module.tree.body:
            if isinstance(n, ast.Assign) and any(isinstance(t, ast.Name) and t.id == e.id for t in n.targets):
                return _scalar_tuple(n.value, f, ctx, depth + 1)
        return False
    if isinstance(e, ast.Attribute) and norm(e.value) in ("self", "cls") and f.cls is not None:
        for n in f.cls.node.body:
            if isinstance(n, ast.Assign) and any(isinstance(t, ast.Name) and t.id == e.attr for t in n.targets):
                return _scalar_tuple(n.value, f, ctx, depth + 1)
    return False


def flat_predicates(ctx) -> Set[str]:
    """Names of functions that answer True only when every item of their one iterable parameter is an instance of the
    host scalar types bool/int/float/str (values that are the same object on both sides of the boundary)."""
    cached = getattr(ctx, "_flat_predicates", None)
    if cached is not None:
        return cached
    out: Set[str] = set()
    for f in ctx.tree.funcs:
        if isinstance(f.node, ast.Lambda):
            continue
        ps = [p for p in f.params() if p != "self"]
        if len(ps) != 1:
            continue
        rets = [r for r in f.own_nodes() if isinstance(r, ast.Return)]
        if not rets:
            continue
        ok = True
        saw_true = False
        for r in rets:
            v = r.value
            if isinstance(v, ast.Constant) and v.value is False:
                continue
            if isinstance(v, ast.Constant) and v.value is True:
                # reached only past a loop over the parameter that returns False for every non-scalar item
                loops = [l for l in f.own_nodes() if isinstance(l, ast.For) and norm(l.iter) == ps[0] and isinstance(l.target, ast.Name)]
                good = False
                for l in loops:
                    for i in l.body:
                        if isinstance(i, ast.If) and isinstance(i.test, ast.UnaryOp) and isinstance(i.test.op, ast.Not) and isinstance(i.test.operand, ast.Call) and norm(i.test.operand.func) == "isinstance" and norm(i.test.operand.args[0]) == l.target.id and _scalar_tuple(i.test.operand.args[1], f, ctx) and i.body and isinstance(i.body[-1], ast.Return) and isinstance(i.body[-1].value, ast.Constant) and i.body[-1].value.value is False:
                            good = True
                if not good or r._parent is not f.node:
                    ok = False
                saw_true = True
                continue
            if isinstance(v, ast.Call) and norm(v.func) == "all" and len(v.args) == 1 and isinstance(v.args[0], ast.GeneratorExp):
                g = v.args[0]
                if len(g.generators) == 1 and norm(g.generators[0].iter) == ps[0] and not g.generators[0].ifs and isinstance(g.elt, ast.Call) and norm(g.elt.func) == "isinstance" and norm(g.elt.args[0]) == norm(g.generators[0].target) and _scalar_tuple(g.elt.args[1], f, ctx):
                    saw_true = True
                    continue
            ok = False
        if ok and saw_true:
            out.add(f.name)
    ctx._flat_predicates = out
    return out


def _flat_guarded(ctx, node: ast.AST, f, container: str) -> bool:
    """Is node reached only after a flat predicate accepted `container` (its items are host scalars)?"""
    from ..util import atoms, known_conditions

    preds = flat_predicates(ctx)
    for t, pol in known_conditions(node, f.node):
        for a, p in atoms(t, pol):
            if p and isinstance(a, ast.Call) and (norm(a.func).split(".")[-1] in preds) and len(a.args) == 1 and norm(a.args[0]).replace(" ", "") == container.replace(" ", ""):
                return True
    return False


def rule_fresh_containers(ctx, rep, rid: str) -> None:
    rep.rule(rid, "values cross the Python boundary as freshly built containers: _to_python returns new lists/dicts of recursively converted elements, _to_js stores only converted elements, and eval/get return only through _to_python", floor=6)
    t = ctx.tree
    ctxcls = t.class_named("Context")
    tp = t.find_method(ctxcls, "_to_python")
    tj = t.find_method(ctxcls, "_to_js")
    internal = ("_elements", "_properties", "_globals", "_data", "_getters", "_setters")
    for r in [n for n in tp.own_nodes() if isinstance(n, ast.Return) and n.value is not None]:
        v = r.value
        txt = norm(v)
        if not any(w in txt for w in internal):
            continue
        key = f"{tp.qual}:return {short(v, 50)}"
        fresh = isinstance(v, (ast.ListComp, ast.DictComp)) or (isinstance(v, ast.Call) and norm(v.func) in ("list", "dict", "tuple"))
        recursive = any(isinstance(c, ast.Call) and norm(c.func) == "self._to_python" for c in ast.walk(v))
        if isinstance(v, (ast.ListComp, ast.DictComp)):
            elt = v.elt if isinstance(v, ast.ListComp) else v.value
            recursive = any(isinstance(c, ast.Call) and norm(c.func) == "self._to_python" for c in ast.walk(elt))
        if fresh and recursive:
            rep.ok(rid, key)
        elif fresh and isinstance(v, ast.Call) and len(v.args) == 1 and (_flat_guarded(ctx, r, tp, norm(v.args[0])) or _flat_guarded(ctx, r, tp, norm(v.args[0]) + ".values()")):
            rep.ok(rid, key, {"note": "a copy of a container that a flat predicate found to hold host scalars only: nothing below it to convert"})
        else:
            what = "the interpreter's own container (or a view of it)" if not fresh else "a new container whose elements are not converted"
            rep.bad(rid, key, f"_to_python hands out {short(v, 50)}: {what} escapes to the embedder, who can then mutate script state or see internal values", f"{tp.module.rel}:{r.lineno}")
    for name in ("eval", "get"):
        m = t.find_method(ctxcls, name)
        for r in [n for n in m.own_nodes() if isinstance(n, ast.Return) and n.value is not None]:
            key = f"{m.qual}:return"
            if isinstance(r.value, ast.Call) and norm(r.value.func) == "self._to_python":
                rep.ok(rid, key)
            else:
                rep.bad(rid, key, f"Context.{name} returns {short(r.value, 40)} without converting it through _to_python", f"{m.module.rel}:{r.lineno}")
    # inward
    for n in tj.own_nodes():
        if isinstance(n, ast.Assign):
            for tg in n.targets:
                if isinstance(tg, ast.Attribute) and tg.attr in internal:
                    rep.bad(rid, f"{tj.qual}:{norm(tg)} = {short(n.value, 30)}", f"_to_js stores {short(n.value, 30)} directly into {norm(tg)}: the embedder's container becomes script state (aliasing)", f"{tj.module.rel}:{n.lineno}")
        if isinstance(n, ast.Call) and isinstance(n.func, ast.Attribute) and n.func.attr in ("push", "set", "append", "set_index") and n.args:
            val = n.args[-1]
            key = f"{tj.qual}:{norm(n.func)}({short(val, 30)})"
            if isinstance(val, ast.Call) and norm(val.func) == "self._to_js":
                rep.ok(rid, key)
            else:
                rep.bad(rid, key, f"_to_js stores {short(val, 30)} without converting it", f"{tj.module.rel}:{n.lineno}")
    # bulk stores: extend/update copy the embedder's members as they are
    for n in tj.own_nodes():
        if not (isinstance(n, ast.Call) and isinstance(n.func, ast.Attribute) and n.func.attr in ("extend", "update") and isinstance(n.func.value, ast.Attribute) and n.func.value.attr in internal and len(n.args) == 1):
            continue
        src = n.args[0]
        key = f"{tj.qual}:{norm(n.func)}({short(src, 30)})"
        if n.func.attr == "extend":
            if _flat_guarded(ctx, n, tj, norm(src)):
                rep.ok(rid, key, {"note": "host scalars only (flat predicate)"})
            else:
                rep.bad(rid, key, f"_to_js copies the members of {short(src, 30)} into {norm(n.func.value)} without converting them and without a test that they are host scalars", f"{tj.module.rel}:{n.lineno}")
            continue
        # update: values and KEYS
        if isinstance(src, (ast.GeneratorExp, ast.ListComp, ast.DictComp)):
            kx, vx = (src.key, src.value) if isinstance(src, ast.DictComp) else ((src.elt.elts[0], src.elt.elts[1]) if isinstance(src.elt, ast.Tuple) and len(src.elt.elts) == 2 else (None, None))
            it = norm(src.generators[0].iter)
            base = it[: -len(".items()")] if it.endswith(".items()") else it
            keys_ok = kx is not None and isinstance(kx, ast.Call) and norm(kx.func) == "str"
            vals_ok = vx is not None and ((isinstance(vx, ast.Call) and norm(vx.func) == "self._to_js") or _flat_guarded(ctx, n, tj, base + ".values()"))
        else:
            base = norm(src)
            keys_ok = False
            vals_ok = _flat_guarded(ctx, n, tj, base + ".values()")
        if keys_ok and vals_ok:
            rep.ok(rid, key)
        elif not vals_ok:
            rep.bad(rid, key, f"_to_js copies the values of {short(src, 30)} into {norm(n.func.value)} without converting them and without a test that they are host scalars", f"{tj.module.rel}:{n.lineno}")
        else:
            rep.bad(rid, key, f"_to_js copies the KEYS of {short(src, 30)} into {norm(n.func.value)} as they are: property keys are strings for the script, so a host dict keyed by 1 or None yields a property no script expression can reach (obj[1] looks up '1') while for..in and JSON see a non-string key; the item-by-item path stores str(k)", f"{tj.module.rel}:{n.lineno}")
    sset = t.find_method(ctxcls, "set")
    txt = " ".join(norm(s) for s in sset.body())
    if "self._to_js(value)" in txt:
        rep.ok(rid, f"{sset.qual}:converts")
    else:
        rep.bad(rid, f"{sset.qual}:converts", "Context.set stores the embedder's value without _to_js", sset.loc)


BUILTIN_SUBCLASS = {("bool", "int")}


def rule_isinstance_order(ctx, rep, rid: str, funcs: List[str], floor: int = 2) -> None:
    rep.rule(rid, "type-dispatch chains test a subclass before its superclass (bool before int/float, JSArray before JSObject): no branch is shadowed by an earlier, more general test", floor=floor)
    t = ctx.tree
    for q in funcs:
        f = t.func(q)
        var = [p for p in f.params() if p != "self"][0]
        seq: List[Tuple[List[str], int]] = []
        for s in f.body():
            if isinstance(s, ast.If):
                tt = s.test
                if isinstance(tt, ast.Call) and norm(tt.func) == "isinstance" and isinstance(tt.args[0], ast.Name) and tt.args[0].id == var:
                    k = tt.args[1]
                    names = [k.id] if isinstance(k, ast.Name) else [e.id for e in getattr(k, "elts", []) if isinstance(e, ast.Name)]
                    seq.append((names, s.lineno))
        if len(seq) < 3:
            raise AnalysisError(f"{q}: type-dispatch chain not recognised")
        bad = None
        for i, (later, line) in enumerate(seq):
            for earlier, _ in seq[:i]:
                for a in earlier:
                    for b in later:
                        if _is_subclass(t, f, b, a) and a != b:
                            bad = (a, b, line)
        key = f"{q}:dispatch-order"
        if bad:
            rep.bad(rid, key, f"{q} tests {bad[0]} before its subclass {bad[1]}: the {bad[1]} branch can never run ({'arrays come back as plain dicts' if bad[1] == 'JSArray' else 'booleans are treated as numbers'})", f"{f.module.rel}:{bad[2]}")
        else:
            rep.ok(rid, key, {"order": ["/".join(n) for n, _ in seq]})


def _is_subclass(t, f: Func, sub: str, sup: str) -> bool:
    if (sub, sup) in BUILTIN_SUBCLASS:
        return True
    cs = t.resolve_class_name(f.module, sub)
    if cs is None:
        return False
    return any(c.name == sup for c in t.mro(cs)[1:])


def rule_argument_order(ctx, rep, rid: str) -> None:
    rep.rule(rid, "call arguments are collected from the operand stack in source order and passed positionally to host functions", floor=3)
    vmcls = ctx.facts.vm_dispatcher()[0].cls
    n = 0
    for m in vmcls.methods.values():
        for loop in [x for x in m.own_nodes() if isinstance(x, ast.For)]:
            if not (isinstance(loop.iter, ast.Call) and norm(loop.iter.func) == "range"):
                continue
            body = [norm(s) for s in loop.body]
            if any("self.stack.pop()" in b for b in body):
                tgt = None
                for s in loop.body:
                    if isinstance(s, ast.Expr) and isinstance(s.value, ast.Call) and isinstance(s.value.func, ast.Attribute) and "self.stack.pop()" in norm(s.value):
                        tgt = (norm(s.value.func.value), s.value.func.attr, norm(s.value.args[0]) if s.value.args else "")
                if tgt is None or tgt[0] not in ("args", "elements"):
                    continue
                n += 1
                key = f"{m.qual}:{tgt[0]}-collection@{norm(loop.iter)}"
                if tgt[1] == "insert" and tgt[2] == "0":
                    rep.ok(rid, key, {"idiom": f"{tgt[0]}.insert(0, pop())"})
                elif tgt[1] == "append":
                    rev = any(isinstance(x, ast.Call) and norm(x.func) in (f"{tgt[0]}.reverse",) for x in m.own_nodes())
                    if rev:
                        rep.ok(rid, key, {"idiom": "append + reverse"})
                    else:
                        rep.bad(rid, key, f"{m.qual} appends popped operands without reversing them: arguments reach the callee in reverse order", f"{m.module.rel}:{loop.lineno}")
                else:
                    rep.bad(rid, key, f"{m.qual} collects popped operands with {tgt[1]}({tgt[2]}): order not preserved", f"{m.module.rel}:{loop.lineno}")
    # dynamic calls splat positionally
    for m in vmcls.methods.values():
        for cs in ctx.cg.sites_of[id(m)]:
            if cs.kind == "dynamic" and any(isinstance(a, ast.Starred) for a in cs.call.args):
                st = [a for a in cs.call.args if isinstance(a, ast.Starred)]
                key = f"{m.qual}:{short(cs.call, 40)}"
                if len(st) == 1 and cs.call.args[-1] is st[0] and not cs.call.keywords:
                    rep.ok(rid, key)
                else:
                    rep.bad(rid, key, "host function called with reordered / keyword arguments", f"{m.module.rel}:{cs.line}")


# ---- optional elements of host result objects (regex capture groups) -----------------------------------
def _optional_item_classes(ctx) -> Dict[str, List[str]]:
    """Host classes whose element accessors are declared to return Optional[...] (the regex MatchResult:
    a group that did not participate is Python None): class name -> accessor names."""
    out: Dict[str, List[str]] = {}
    for lst in ctx.tree.classes.values():
        for ci in lst:
            acc = [n for n, m in ci.methods.items() if n in ("__getitem__", "group", "groups") and getattr(m.node, "returns", None) is not None and "Optional" in norm(m.node.returns)]
            if "__getitem__" in acc:
                out[ci.name] = acc
    return out


def rule_optional_groups_normalised(ctx, rep, rid: str, floor: int = 4) -> None:
    """Every read of a capture group from a match object (Optional[str]: None = did not participate) outside the
    regex package is None-aware before the value can travel on: tested against None / truthiness, or bound to a
    local that is.  Otherwise Python None reaches script code as a value of no JavaScript type."""
    rep.rule(rid, "every capture group read from a regex match object outside the regex package is tested for None (or defaulted with `or`) before it is used: a group that did not participate never reaches script code as Python None", floor=floor)
    opt = _optional_item_classes(ctx)
    if not opt:
        raise AnalysisError("no host class with Optional element access found (regex MatchResult)")
    producers = {id(f) for f in ctx.tree.funcs if getattr(f.node, "returns", None) is not None and any(c in norm(f.node.returns) for c in opt)}
    if not producers:
        raise AnalysisError("no function returning a match object found")

    # functions that return a LIST of match objects (all matches of a global regex): found by shape, to a fixpoint
    list_producers: Set[int] = set()

    def _produces(call: ast.AST, among: Set[int]) -> bool:
        cs_ = ctx.cg.site_of_call.get(id(call)) if isinstance(call, ast.Call) else None
        return cs_ is not None and bool(cs_.targets) and any(id(t) in among for t in cs_.targets)

    def _local_lists(g: Func) -> Set[str]:
        """Locals of g that hold a list of match objects."""
        singles = {t.id for a in g.own_nodes() if isinstance(a, ast.Assign) and _produces(a.value, producers) for t in a.targets if isinstance(t, ast.Name)}
        out: Set[str] = set()
        for a in g.own_nodes():
            if isinstance(a, ast.Assign) and len(a.targets) == 1 and isinstance(a.targets[0], ast.Name):
                v = a.value
                arms = [v.body, v.orelse] if isinstance(v, ast.IfExp) else [v]
                for arm in arms:
                    if _produces(arm, list_producers) or (isinstance(arm, ast.List) and any(isinstance(e, ast.Name) and e.id in singles for e in arm.elts)):
                        out.add(a.targets[0].id)
            if isinstance(a, ast.Call) and isinstance(a.func, ast.Attribute) and a.func.attr == "append" and isinstance(a.func.value, ast.Name) and a.args and isinstance(a.args[0], ast.Name) and a.args[0].id in singles:
                out.add(a.func.value.id)
        return out

    changed = True
    while changed:
        changed = False
        for g in ctx.tree.funcs:
            if isinstance(g.node, ast.Lambda) or id(g) in list_producers or id(g) in producers:
                continue
            lists = _local_lists(g)
            rets = [r for r in g.own_nodes() if isinstance(r, ast.Return) and r.value is not None]
            if rets and all((isinstance(r.value, ast.Name) and r.value.id in lists) or _produces(r.value, list_producers) for r in rets):
                list_producers.add(id(g))
                changed = True

    def none_aware(n: ast.AST, f: Func) -> bool:
        p = getattr(n, "_parent", None)
        if isinstance(p, ast.BoolOp) and isinstance(p.op, ast.Or) and p.values[-1] is not n:
            return True
        if isinstance(p, ast.IfExp) and p.test is n:
            return True
        if isinstance(p, ast.IfExp) and isinstance(p.test, ast.Compare) and len(p.test.ops) == 1 and norm(p.test.left) == norm(n) and isinstance(p.test.comparators[0], ast.Constant) and p.test.comparators[0].value is None:
            # `D if v is None else v` / `v if v is not None else D`: the arm that holds v is the one where it is not None
            if (isinstance(p.test.ops[0], ast.Is) and p.orelse is n) or (isinstance(p.test.ops[0], ast.IsNot) and p.body is n):
                return True
        if isinstance(p, ast.Compare) and any(isinstance(c, ast.Constant) and c.value is None for c in p.comparators):
            return True
        if isinstance(p, (ast.If, ast.While)) and p.test is n:
            return True
        if isinstance(p, ast.UnaryOp) and isinstance(p.op, ast.Not):
            return True
        if isinstance(p, ast.Assign) and len(p.targets) == 1 and isinstance(p.targets[0], ast.Name):
            v = p.targets[0].id
            uses = [x for x in f.own_nodes() if isinstance(x, ast.Name) and x.id == v and isinstance(x.ctx, ast.Load) and x.lineno >= p.lineno]
            # every later use is itself None-aware, or is dominated by a None test of the local in an enclosing/earlier guard
            tested = [u for u in uses if none_aware(u, f)]
            return bool(tested) and all(u in tested or any(t.lineno <= u.lineno for t in tested) for u in uses)
        return False

    def own_carriers(f: Func) -> Set[str]:
        """Locals of f (and of the functions around it) that hold one match object."""
        carriers: Set[str] = set()
        h: Optional[Func] = f
        while h is not None:
            for cs in ctx.cg.sites_of.get(id(h), []):
                if any(id(t) in producers for t in cs.targets):
                    p = getattr(cs.call, "_parent", None)
                    if isinstance(p, ast.Assign) and len(p.targets) == 1 and isinstance(p.targets[0], ast.Name):
                        carriers.add(p.targets[0].id)
            # match objects taken out of a list of them: loop and comprehension variables, and `one = many[0]`
            lists = _local_lists(h)
            for n in h.own_nodes():
                it = n.iter if isinstance(n, (ast.For, ast.comprehension)) else None
                if it is not None and isinstance(n.target, ast.Name) and ((isinstance(it, ast.Name) and it.id in lists) or _produces(it, list_producers)):
                    carriers.add(n.target.id)
                if isinstance(n, ast.Assign) and len(n.targets) == 1 and isinstance(n.targets[0], ast.Name) and isinstance(n.value, ast.Subscript) and isinstance(n.value.value, ast.Name) and n.value.value.id in lists and not isinstance(n.value.slice, ast.Slice):
                    carriers.add(n.targets[0].id)
            h = h.parent
        return carriers

    for f in ctx.tree.funcs:
        if f.module.name.startswith("regex") or isinstance(f.node, ast.Lambda):
            continue
        carriers = own_carriers(f)
        # parameters bound to a carrier of the enclosing function at a call of this (nested) function
        if f.parent is not None and not isinstance(f.parent.node, ast.Lambda):
            pc = own_carriers(f.parent)
            params = f.params()
            for n in f.parent.own_nodes():
                if isinstance(n, ast.Call) and isinstance(n.func, ast.Name) and n.func.id == f.name:
                    for i, a in enumerate(n.args):
                        if isinstance(a, ast.Name) and a.id in pc and i < len(params):
                            carriers.add(params[i])
        if not carriers:
            continue
        for n in f.own_nodes():
            read = None
            if isinstance(n, ast.Subscript) and isinstance(n.ctx, ast.Load) and isinstance(n.value, ast.Name) and n.value.id in carriers:
                if isinstance(n.slice, ast.Constant) and n.slice.value == 0:
                    continue  # the whole match always participates
                read = n
            elif isinstance(n, ast.Call) and isinstance(n.func, ast.Attribute) and n.func.attr in ("group", "groups") and isinstance(n.func.value, ast.Name) and n.func.value.id in carriers:
                read = n
            if read is None:
                continue
            key = f"{f.qual}:{norm(read)}"
            if none_aware(read, f):
                rep.ok(rid, key)
                continue
            sink = _none_reaches_script(ctx, read, f, none_aware, 0)
            if sink is None:
                rep.ok(rid, key, {"note": "not tested here, but the value never reaches a script-visible place un-tested"})
            else:
                rep.bad(rid, key, f"{f.qual} reads capture group {norm(read)} of a match object and hands it on without a None test ({sink}): a group that did not participate is Python None and reaches script code as a value of no JavaScript type", f"{f.module.rel}:{read.lineno}")


def _none_reaches_script(ctx, src: ast.AST, f: Func, none_aware, depth: int) -> Optional[str]:
    """Where does the value of expression `src` (possibly None) go?  Followed through list/tuple displays,
    comprehensions, locals and parameters of resolved callees (two levels); a use that tests for None stops the
    flow.  Returns a description of the first script-visible sink: argument of a call that can run script code,
    element/property of a script object, operand stack, result of a native function."""
    from .builtins import _reentrant_sites

    re_sites = {id(c) for c in _reentrant_sites(ctx, f)}
    is_native = id(f) in ctx.cg.natives
    tainted_exprs: List[ast.AST] = [src]
    tainted_names: Set[str] = set()
    seen: Set[int] = set()
    while tainted_exprs:
        e = tainted_exprs.pop()
        if id(e) in seen:
            continue
        seen.add(id(e))
        p = getattr(e, "_parent", None)
        if p is None:
            continue
        if e is not src and none_aware(e, f):
            continue
        # containers and wrappers keep the value
        if isinstance(p, (ast.List, ast.Tuple, ast.Starred, ast.Set)) or (isinstance(p, ast.IfExp) and p.test is not e) or (isinstance(p, ast.BoolOp) and p.values[-1] is e):
            tainted_exprs.append(p)
            continue
        if isinstance(p, (ast.ListComp, ast.GeneratorExp, ast.SetComp)) and p.elt is e:
            tainted_exprs.append(p)
            continue
        if isinstance(p, ast.Assign):
            for t in p.targets:
                if isinstance(t, ast.Name):
                    tainted_names.add(t.id)
                    for u in f.own_nodes():
                        if isinstance(u, ast.Name) and u.id == t.id and isinstance(u.ctx, ast.Load) and u.lineno >= p.lineno:
                            tainted_exprs.append(u)
                elif isinstance(t, ast.Attribute) and t.attr in ("_elements", "_properties"):
                    return f"stored as {norm(t)} at line {p.lineno}"
                elif isinstance(t, ast.Subscript) and isinstance(t.value, ast.Attribute) and t.value.attr in ("_elements", "_properties", "locals", "stack"):
                    return f"stored into {norm(t.value)} at line {p.lineno}"
            continue
        if isinstance(p, ast.Subscript) and p.value is e and not isinstance(p.slice, ast.Slice):
            tainted_exprs.append(p)  # an element of a tainted sequence
            continue
        if isinstance(p, ast.Subscript) and p.value is e:
            tainted_exprs.append(p)
            continue
        if isinstance(p, ast.comprehension) and p.iter is e:
            comp = getattr(p, "_parent", None)
            for u in ast.walk(comp):
                if isinstance(u, ast.Name) and isinstance(u.ctx, ast.Load) and any(isinstance(x, ast.Name) and x.id == u.id for x in ast.walk(p.target)):
                    tainted_exprs.append(u)
            continue
        if isinstance(p, ast.For) and p.iter is e:
            for st in p.body:
                for u in ast.walk(st):
                    if isinstance(u, ast.Name) and isinstance(u.ctx, ast.Load) and any(isinstance(x, ast.Name) and x.id == u.id for x in ast.walk(p.target)):
                        tainted_exprs.append(u)
            continue
        if isinstance(p, ast.Return):
            if is_native:
                return f"returned by the native function at line {p.lineno}"
            if depth < 2:
                # the value goes back to the callers of f
                for cs in ctx.cg.sites:
                    if cs.kind == "resolved" and any(t is f for t in cs.targets):
                        r = _none_reaches_script(ctx, cs.call, cs.func, none_aware, depth + 1)
                        if r:
                            return r
            continue
        if isinstance(p, ast.keyword):
            call = getattr(p, "_parent", None)
            arg_index, kw = None, p.arg
        elif isinstance(p, ast.Call) and e in p.args:
            call, arg_index, kw = p, p.args.index(e), None
        elif isinstance(p, ast.Call) and isinstance(p.func, ast.Attribute) and p.func.value is e:
            continue  # a method of the value itself: a host error at worst, not a value handed to the script
        else:
            continue
        if not isinstance(call, ast.Call):
            continue
        fnn = norm(call.func)
        if fnn in ("list", "tuple", "sorted", "reversed", "iter") and arg_index == 0:
            tainted_exprs.append(call)  # a host container of the same members
            continue
        cs0 = ctx.cg.site_of_call.get(id(call))
        local_callee = cs0 is not None and cs0.kind == "resolved" and cs0.targets and all(t.parent is not None and not isinstance(t.node, ast.Lambda) for t in cs0.targets) and depth < 2
        if id(call) in re_sites and not local_callee:
            return f"argument of {short(call, 50)} at line {call.lineno}, which can run script code"
        if fnn.endswith("._elements.append") or fnn.endswith("._elements.extend") or fnn.endswith("._elements.insert") or fnn.endswith("stack.append") or (isinstance(call.func, ast.Attribute) and call.func.attr == "set" and arg_index == 1):
            return f"stored by {short(call, 50)} at line {call.lineno}"
        if isinstance(call.func, ast.Attribute) and call.func.attr in ("append", "extend", "insert") and isinstance(call.func.value, ast.Name):
            # a host list that collects the value
            nm = call.func.value.id
            for u in f.own_nodes():
                if isinstance(u, ast.Name) and u.id == nm and isinstance(u.ctx, ast.Load) and u is not call.func.value:
                    tainted_exprs.append(u)
            continue
        cs = ctx.cg.site_of_call.get(id(call))
        if cs is not None and cs.kind == "resolved" and depth < 2:
            from ..util import bind_args

            for tg in cs.targets:
                if isinstance(tg.node, ast.Lambda):
                    continue
                b = bind_args(call, tg)
                for pname, a in b.items():
                    if a is e or (isinstance(a, ast.Starred) and a.value is e):
                        for u in tg.own_nodes():
                            if isinstance(u, ast.Name) and u.id == pname and isinstance(u.ctx, ast.Load):
                                r = _none_reaches_script(ctx, u, tg, none_aware, depth + 1)
                                if r:
                                    return f"through parameter `{pname}` of {tg.name}: {r}"
    return None


# ---- "is it an object?" decisions never count null as one ---------------------------------------------
def _typeof_object_tests(tree: ast.AST) -> List[Tuple[ast.AST, str, bool]]:
    """Comparisons of a js_typeof(E) result with "object" (==, !=, in, not in a literal collection holding
    "object"): [(compare node, text of E, null_excluded)].  null_excluded: the enclosing boolean condition also
    compares E with NULL (typeof null is "object", so the comparison alone takes null for an object)."""
    out = []
    typeof_locals: Dict[str, str] = {}
    for n in ast.walk(tree):
        if isinstance(n, ast.Assign) and len(n.targets) == 1 and isinstance(n.targets[0], ast.Name) and isinstance(n.value, ast.Call) and call_name(n.value) == "js_typeof" and n.value.args:
            typeof_locals[n.targets[0].id] = norm(n.value.args[0])
    for n in ast.walk(tree):
        if not isinstance(n, ast.Compare) or len(n.ops) != 1:
            continue
        l, r = n.left, n.comparators[0]
        operand = None
        for a, b in ((l, r), (r, l)):
            if isinstance(a, ast.Call) and call_name(a) == "js_typeof" and a.args:
                operand, other = norm(a.args[0]), b
            elif isinstance(a, ast.Name) and a.id in typeof_locals:
                operand, other = typeof_locals[a.id], b
            else:
                continue
            break
        if operand is None:
            continue
        lits = [other] if isinstance(other, ast.Constant) else (list(other.elts) if isinstance(other, (ast.Tuple, ast.List, ast.Set)) else [])
        if not any(isinstance(x, ast.Constant) and x.value == "object" for x in lits):
            continue
        # climb to the whole condition
        top = n
        while isinstance(getattr(top, "_parent", None), (ast.BoolOp, ast.UnaryOp)):
            top = top._parent
        excl = any(isinstance(c, ast.Compare) and len(c.ops) == 1 and isinstance(c.ops[0], (ast.Is, ast.IsNot, ast.Eq, ast.NotEq)) and {norm(c.left), norm(c.comparators[0])} == {operand, "NULL"} for c in ast.walk(top))
        out.append((n, operand, excl))
    return out


def rule_null_is_not_an_object(ctx, rep, rid: str) -> None:
    rep.rule(rid, "host code that decides whether a script value is an object never takes null for one: a test of js_typeof(v) against \"object\" is combined with a NULL test of the same value; the constructor-return decision (keep the new object unless the body returned an object) uses such a null-safe test", floor=2)
    ctl = ast.parse("def f(v):\n    if js_typeof(v) not in ('object', 'function'):\n        return 1\n    if js_typeof(v) == 'object' and v is not NULL:\n        return 2\n")
    for x in ast.walk(ctl):
        for c in ast.iter_child_nodes(x):
            c._parent = x  # type: ignore[attr-defined]
    got = _typeof_object_tests(ctl)
    if [x[2] for x in got] != [False, True]:
        raise AnalysisError("positive control failed: typeof-object test detector")
    n_sites = 0
    for f in ctx.tree.funcs:
        if f.module.name.startswith("regex"):
            continue
        for cmp_, operand, excl in _typeof_object_tests_in(f):
            n_sites += 1
            key = f"{f.qual}:typeof({operand})~object"
            if excl:
                rep.ok(rid, key)
            else:
                rep.bad(rid, key, f"{f.qual} decides objectness with {short(cmp_, 60)}: typeof null is \"object\", so null passes for an object here (e.g. `new F` with `return null` yields null instead of the new object)", f"{f.module.rel}:{cmp_.lineno}")
    rep.ok(rid, "typeof-object-tests", {"sites": n_sites})
    # the constructor-return decision
    df, chain = ctx.facts.vm_dispatcher()
    n_dec = 0
    for f in ctx.tree.funcs:
        if f.module.name != df.module.name:
            continue
        for n in f.own_nodes():
            if isinstance(n, ast.If) and isinstance(n.test, ast.Attribute) and n.test.attr == "is_constructor_call":
                for inner in n.body:
                    if isinstance(inner, ast.If):
                        n_dec += 1
                        key = f"{f.qual}:constructor-return:{norm(inner.test)[:50]}"
                        t = inner.test
                        neg = isinstance(t, ast.UnaryOp) and isinstance(t.op, ast.Not)
                        core = t.operand if neg else t
                        if isinstance(core, ast.Call) and call_name(core) == "isinstance" and len(core.args) == 2:
                            names = [norm(x) for x in (core.args[1].elts if isinstance(core.args[1], ast.Tuple) else [core.args[1]])]
                            bad = [c for c in names if c != "JSObject" and not _is_subclass(ctx.tree, f, c, "JSObject") and not _callable_class(ctx, c)]
                            if bad:
                                rep.bad(rid, key, f"{f.qual}: the constructor-return decision counts {bad} as objects", f"{f.module.rel}:{inner.lineno}")
                            else:
                                rep.ok(rid, key, {"form": "isinstance against the object classes"})
                        else:
                            rep.ok(rid, key, {"form": "other (typeof sites are judged separately)"})
    if n_dec == 0:
        raise AnalysisError("constructor-return decision not found (no test under `is_constructor_call`)")


def _callable_class(ctx, name: str) -> bool:
    return name in ("JSFunction", "JSBoundMethod", "JSCallableObject")


def _typeof_object_tests_in(f: Func):
    own = {id(x) for x in f.own_nodes()}
    return [t for t in _typeof_object_tests(f.node) if id(t[0]) in own]


# ---- bind composes: a bound function bound again keeps its this and accumulates arguments ---------------
def rule_bind_composes(ctx, rep, rid: str) -> None:
    """A bound script function is represented by marker attributes on a function object (bound this, bound
    arguments, the wrapped function).  f.bind(a).bind(b) must behave as f with this = a: either bind flattens
    (reads the markers of the function it is applied to and wraps the ORIGINAL function), or the call path unwraps
    every level (a loop).  One-level unwrapping with non-flattening bind runs the inner bound function as if it
    were unbound, with the outer this."""
    rep.rule(rid, "bind applied to a bound function composes: the bind native takes over the bound this/arguments of its operand and wraps the original function, or the call path unwraps all levels in a loop", floor=1)
    binders = []
    for f in ctx.tree.funcs:
        for n in f.own_nodes():
            if isinstance(n, ast.Assign) and any(isinstance(t, ast.Attribute) and t.attr == "_original_func" for t in n.targets):
                binders.append((f, n))
    if not binders:
        raise AnalysisError("no function marks a bound function (assignment to ._original_func)")
    unwrappers = []
    for f in ctx.tree.funcs:
        for n in f.own_nodes():
            if isinstance(n, ast.Assign) and isinstance(n.value, ast.Attribute) and n.value.attr == "_original_func" and (f, None) not in unwrappers and not any(f is b for b, _ in binders):
                in_loop = any(isinstance(p, ast.While) for p in _parents(n))
                unwrappers.append((f, in_loop))
    loop_unwrap = bool(unwrappers) and all(l for _, l in unwrappers)
    for f, n in binders:
        key = f"{f.qual}:bind-of-bound"
        reads = {x.attr for x in f.own_nodes() if isinstance(x, ast.Attribute) and isinstance(x.ctx, ast.Load) and x.attr in ("_original_func", "_bound_this", "_bound_args")}
        flattens = reads == {"_original_func", "_bound_this", "_bound_args"}
        if flattens:
            rep.ok(rid, key, {"how": "bind flattens (takes over this, arguments and the original function of a bound operand)"})
        elif loop_unwrap:
            rep.ok(rid, key, {"how": "the call path unwraps every level"})
        else:
            rep.bad(rid, key, f"{f.qual} wraps its operand as it is (no look at the operand's own bound this/arguments), and the call path ({', '.join(u.qual for u, _ in unwrappers) or 'none'}) unwraps one level only: f.bind(a, 1).bind(b, 2)(3) runs f with this = b and arguments (2, 3)", f"{f.module.rel}:{n.lineno}")


def _parents(n):
    p = getattr(n, "_parent", None)
    while p is not None:
        yield p
        p = getattr(p, "_parent", None)


# ---- accessors run with the receiver as this -------------------------------------------------------------
def rule_accessor_receiver(ctx, rep, rid: str) -> None:
    """An accessor found on the prototype chain runs with the object the property was read from / written to as
    `this`, not with the object that holds the accessor."""
    rep.rule(rid, "every invocation of a property getter or setter passes the receiver of the property access (the object parameter of the get/set routine, never re-bound while the chain is walked) as this", floor=2)
    vmcls = ctx.facts.vm_dispatcher()[0].cls
    invokers = {m.name for m in vmcls.all_methods if "invoke" in m.name and ("getter" in m.name or "setter" in m.name)}
    if not invokers:
        raise AnalysisError("accessor invocation helpers not found")
    n = 0
    for f in ctx.tree.funcs:
        if isinstance(f.node, ast.Lambda) or f.name in invokers:
            continue
        for c in f.own_nodes():
            if not (isinstance(c, ast.Call) and isinstance(c.func, ast.Attribute) and c.func.attr in invokers and len(c.args) >= 2):
                continue
            n += 1
            this_arg = c.args[1]
            key = f"{f.qual}:{c.func.attr}(.., {short(this_arg, 20)})"
            params = [p for p in f.params() if p != "self"]
            recv = params[0] if params else None
            rebound = [a for a in f.own_nodes() if isinstance(a, (ast.Assign, ast.AugAssign)) and any(isinstance(t, ast.Name) and t.id == recv for t in (a.targets if isinstance(a, ast.Assign) else [a.target]))]
            if isinstance(this_arg, ast.Name) and this_arg.id == recv and not rebound:
                rep.ok(rid, key)
            elif isinstance(this_arg, ast.Name) and this_arg.id == recv:
                rep.bad(rid, key, f"{f.qual} passes `{recv}` as this, but re-binds it at line {rebound[0].lineno}: by the time the accessor runs it may name another object of the chain", f"{f.module.rel}:{c.lineno}")
            else:
                rep.bad(rid, key, f"{f.qual} runs the accessor with `{norm(this_arg)}` as this instead of the receiver `{recv}`: an inherited getter/setter then sees the prototype that holds it (o = Object.create({{get v(){{return this.n}}}}); o.n = 7; o.v is not 7)", f"{f.module.rel}:{c.lineno}")
    if n < 2:
        raise AnalysisError(f"only {n} accessor invocation(s) found")


# ---- host-to-script converters convert every member ----------------------------------------------------
def rule_converters_convert_members(ctx, rep, rid: str) -> None:
    """A function that turns a host list/dict into a script array/object must run every member through the
    conversion (which maps None to null and nested containers to script containers): a member stored as it is can be
    Python None, a list or a dict - values no script type describes."""
    rep.rule(rid, "a function that builds a script array or object from a host list or dict stores only converted members (the result of a conversion call), never the host member itself", floor=2)
    n = 0
    for f in ctx.tree.funcs:
        if isinstance(f.node, ast.Lambda) or f.module.name not in ("context", "vm", "values"):
            continue
        for branch in f.own_nodes():
            if not (isinstance(branch, ast.If) and isinstance(branch.test, ast.Call) and norm(branch.test.func) == "isinstance" and len(branch.test.args) == 2 and norm(branch.test.args[1]) in ("list", "dict", "(list, tuple)", "tuple")):
                continue
            src = norm(branch.test.args[0])
            makes = [x for s_ in branch.body for x in ast.walk(s_) if isinstance(x, ast.Call) and (call_name(x) in ("JSArray", "JSObject") or any(isinstance(a, ast.Starred) for a in x.args))]
            if not makes:
                continue
            # members stored
            stores: List[Tuple[ast.AST, ast.AST, str]] = []  # (expr stored, node, loop variable names)
            for s_ in branch.body:
                for x in ast.walk(s_):
                    if isinstance(x, ast.Assign) and any(isinstance(t, ast.Attribute) and t.attr == "_elements" for t in x.targets) and isinstance(x.value, ast.ListComp) and src in norm(x.value.generators[0].iter):
                        lv = {y.id for y in ast.walk(x.value.generators[0].target) if isinstance(y, ast.Name)}
                        stores.append((x.value.elt, x, lv))
                    if isinstance(x, ast.Call) and any(isinstance(a, ast.Starred) and isinstance(a.value, (ast.ListComp, ast.GeneratorExp)) and src in norm(a.value.generators[0].iter) for a in x.args):
                        # members handed to a constructing call as *[conv(m) for m in src]
                        for a in x.args:
                            if isinstance(a, ast.Starred) and isinstance(a.value, (ast.ListComp, ast.GeneratorExp)):
                                lv = {y.id for y in ast.walk(a.value.generators[0].target) if isinstance(y, ast.Name)}
                                stores.append((a.value.elt, x, lv))
                    if isinstance(x, ast.For) and src in norm(x.iter):
                        lv = {y.id for y in ast.walk(x.target) if isinstance(y, ast.Name)}
                        for c in ast.walk(x):
                            if isinstance(c, ast.Call) and isinstance(c.func, ast.Attribute) and len(c.args) == 2 and (c.func.attr == "set" or (isinstance(c.func.value, ast.Name) and any(isinstance(y, ast.Name) and y.id in lv for y in ast.walk(c.args[0])))):
                                # obj.set(key, value), or another two-argument method of the object model keyed by the member's name
                                stores.append((c.args[1], c, lv))
                            if isinstance(c, ast.Call) and isinstance(c.func, ast.Attribute) and c.func.attr == "append" and "_elements" in norm(c.func.value) and c.args:
                                stores.append((c.args[0], c, lv))
                            if isinstance(c, ast.Call) and isinstance(c.func, ast.Attribute) and c.func.attr in ("push", "set_index") and c.args:
                                stores.append((c.args[-1], c, lv))
            for e, node, lv in stores:
                n += 1
                key = f"{f.qual}:{src}:{short(e, 40)}"
                leaves = []
                work = [e]
                while work:
                    y = work.pop()
                    if isinstance(y, ast.IfExp):
                        work += [y.body, y.orelse]
                    else:
                        leaves.append(y)
                raw = [y for y in leaves if isinstance(y, ast.Name) and y.id in lv]
                if raw:
                    rep.bad(rid, key, f"{f.qual} stores the host member `{raw[0].id}` of {src} as it is ({short(e, 50)}): a JSON null / Python None there becomes an element that is neither null nor undefined for the script (typeof 'undefined', !== undefined), and any other host object leaks the same way", f"{f.module.rel}:{node.lineno}")
                else:
                    rep.ok(rid, key)
    if n < 2:
        raise AnalysisError(f"only {n} member store(s) of host-to-script converters found")


# ---- a key is a data property or an accessor, never both ----------------------------------------------------
def rule_data_accessor_exclusive(ctx, rep, rid: str) -> None:
    """JSObject keeps data values and accessors in separate tables.  Readers and writers consult them in some order,
    so an object holding both under one key answers differently depending on who asks (the getter for reads, the
    data table for hasOwnProperty/keys/JSON).  Every store into an accessor table therefore drops the data entry of
    that key in the same function, and the function that defines a data property over whatever was there (object
    literals, defineProperty with a value) drops the accessors."""
    rep.rule(rid, "every function that stores into an accessor table of an object (`_getters[k] = ..`, `_setters[k] = ..`) removes the data entry of the same key, a defining store of a data property removes the accessors, and delete removes all three: no object holds a data value and an accessor under one key", floor=3)
    acc_tables = ("_getters", "_setters")
    n = 0
    for f in ctx.tree.funcs:
        if isinstance(f.node, ast.Lambda) or f.module.name not in ("values", "vm", "context"):
            continue
        for a in f.own_nodes():
            if not (isinstance(a, ast.Assign) and len(a.targets) == 1 and isinstance(a.targets[0], ast.Subscript) and isinstance(a.targets[0].value, ast.Attribute) and a.targets[0].value.attr in acc_tables):
                continue
            if f.name == "__init__":
                continue
            n += 1
            owner = norm(a.targets[0].value.value)
            k = norm(a.targets[0].slice)
            key = f"{f.qual}:{norm(a.targets[0])[:40]}"
            drops = any(isinstance(c, ast.Call) and isinstance(c.func, ast.Attribute) and c.func.attr == "pop" and norm(c.func.value) == f"{owner}._properties" and c.args and norm(c.args[0]) == k for c in f.own_nodes()) or any(isinstance(d, ast.Delete) and any(norm(t) == f"{owner}._properties[{k}]" for t in d.targets) for d in f.own_nodes())
            if drops:
                rep.ok(rid, key)
            else:
                rep.bad(rid, key, f"{f.qual} stores an accessor for `{k}` without removing a data value the object may hold under that key: the object then answers reads with the getter and hasOwnProperty/keys/JSON with the stale value, and which one a write reaches depends on the order the writer happens to look", f"{f.module.rel}:{a.lineno}")
    # the defining data store and delete
    vals = ctx.tree.mod("values")
    obj = vals.classes.get("JSObject")
    if obj is None:
        raise AnalysisError("JSObject not found")
    definers = [m for m in obj.methods.values() if not isinstance(m.node, ast.Lambda) and all(any(isinstance(c, ast.Call) and isinstance(c.func, ast.Attribute) and c.func.attr == "pop" and norm(c.func.value) == f"self.{t}" for c in m.own_nodes()) for t in acc_tables) and any(isinstance(a, ast.Assign) and any(isinstance(t, ast.Subscript) and norm(t.value) == "self._properties" for t in a.targets) for a in m.own_nodes())]
    if not definers:
        rep.bad(rid, "JSObject:defining-data-store", "JSObject has no method that stores a data value and removes the accessors of that key: object literals and defineProperty({value}) cannot replace an accessor", vals.rel + ":1")
    else:
        dn = definers[0].name
        rep.ok(rid, "JSObject:defining-data-store", {"method": dn})
        users = [f.qual for f in ctx.tree.funcs for c in f.own_nodes() if isinstance(c, ast.Call) and isinstance(c.func, ast.Attribute) and c.func.attr == dn]
        n += 1
        if len(users) >= 2:
            rep.ok(rid, "JSObject:defining-data-store:used", {"by": sorted(set(users))[:4]})
        else:
            rep.bad(rid, "JSObject:defining-data-store:used", f"{dn} is used by {users}: both the object-literal instruction and defineProperty with a value have to define data properties through it", definers[0].loc)
    dele = obj.methods.get("delete")
    if dele is not None:
        n += 1
        txt = " ".join(norm(x) for x in dele.node.body)
        if all(t in txt for t in ("_properties", "_getters", "_setters")):
            rep.ok(rid, "JSObject.delete:all-tables")
        else:
            rep.bad(rid, "JSObject.delete:all-tables", "JSObject.delete does not remove the key from all three tables: a deleted accessor keeps answering", dele.loc)
    if n < 3:
        raise AnalysisError(f"{rid}: accessor-table stores not found")


def rule_nearest_definition_decides(ctx, rep, rid: str) -> None:
    """Property lookup stops at the nearest object on the prototype chain that defines the key, whatever kind of
    property it is there.  A lookup helper that walks the WHOLE chain through the accessor tables only (`get_getter`)
    answers before the data tables of nearer objects were asked: an own data property then fails to shadow an
    inherited accessor."""
    rep.rule(rid, "the interpreter's property read and write paths do not ask a chain-wide accessor lookup (a helper that follows _prototype looking at accessor tables only) before the data properties of nearer objects: accessor and data tables are consulted level by level", floor=2)
    vals = ctx.tree.mod("values")
    chainwide = set()
    for ci in vals.classes.values():
        for m in ci.methods.values():
            if isinstance(m.node, ast.Lambda):
                continue
            walks = any(isinstance(a, ast.Assign) and isinstance(a.value, ast.Attribute) and a.value.attr == "_prototype" for a in m.own_nodes()) and any(isinstance(w, ast.While) for w in m.own_nodes())
            txt = " ".join(norm(x) for x in m.node.body)
            if walks and ("_getters" in txt or "_setters" in txt) and "_properties" not in txt:
                chainwide.add(m.name)
    df, _ = ctx.facts.vm_dispatcher()
    n = 0
    for name in ("_get_property", "_set_property"):
        f = ctx.tree.find_method(df.cls, name)
        if f is None:
            raise AnalysisError(f"{name} not found")
        n += 1
        key = f"{f.qual}:level-by-level"
        calls = [c for c in f.own_nodes() if isinstance(c, ast.Call) and isinstance(c.func, ast.Attribute) and c.func.attr in chainwide]
        if calls:
            c = calls[0]
            rep.bad(rid, key, f"{f.qual} asks `{short(c, 40)}`, which follows the whole prototype chain through the accessor tables, before looking at data properties: an own (or nearer) data property does not shadow an inherited accessor (Object.create(p, {{x: {{value: 5}}}}).x runs p's getter)", f"{f.module.rel}:{c.lineno}")
        else:
            rep.ok(rid, key, {"chain_wide_accessor_helpers": sorted(chainwide)})


# ---- attributes that may hold the host's None never reach a script as they are -----------------------------
def _optional_attrs(ctx) -> Set[str]:
    """Attributes of the object-model classes declared Optional[...] or initialised with None (the end of a
    prototype chain, a typed array without a buffer ...)."""
    out: Set[str] = set()
    for ci in ctx.tree.mod("values").classes.values():
        for m in ci.methods.values():
            if isinstance(m.node, ast.Lambda):
                continue
            for a in m.own_nodes():
                if isinstance(a, ast.AnnAssign) and isinstance(a.target, ast.Attribute) and norm(a.target.value) == "self" and "Optional" in norm(a.annotation):
                    out.add(a.target.attr)
                if isinstance(a, ast.Assign) and isinstance(a.value, ast.Constant) and a.value.value is None:
                    for t in a.targets:
                        if isinstance(t, ast.Attribute) and norm(t.value) == "self":
                            out.add(t.attr)
                if isinstance(a, ast.Assign) and isinstance(a.value, ast.Name) and m.name == "__init__":
                    # self._prototype = prototype with `prototype: Optional[...] = None`
                    for x in m.node.args.args:
                        if x.arg == a.value.id and x.annotation is not None and "Optional" in norm(x.annotation):
                            for t in a.targets:
                                if isinstance(t, ast.Attribute) and norm(t.value) == "self":
                                    out.add(t.attr)
    return out


def rule_optional_attributes_mapped(ctx, rep, rid: str) -> None:
    """The object model marks "nothing here" with the host's None (no prototype, no buffer).  Where such an attribute
    becomes a script value - the result of a property read or of a native, a value pushed on the operand stack or
    stored in a script object - None has to be mapped to null/undefined first."""
    rep.rule(rid, "an attribute of the object model that may hold the host's None (Optional[..] / initialised with None) becomes a script value only behind a None test or mapping (`x if x is not None else NULL`, `x or UNDEFINED`): the end of a prototype chain is null for a script, never Python None", floor=1)
    from ..util import atoms, known_conditions

    opt = _optional_attrs(ctx)
    if "_prototype" not in opt:
        raise AnalysisError(f"the optional attributes of the object model were not recognised ({sorted(opt)[:6]})")
    sr = ctx.facts.script_reachable()
    natives = ctx.cg.natives
    n = 0
    for f in ctx.tree.funcs:
        if isinstance(f.node, ast.Lambda) or f.module.name not in ("vm", "context") or id(f) not in sr:
            continue
        produces = id(f) in natives or f.name in ("_get_property", "_execute_opcode", "_to_primitive", "_call_host")
        for node in f.own_nodes():
            vals = []
            if isinstance(node, ast.Return) and node.value is not None and produces:
                vals.append(node.value)
            if isinstance(node, ast.Call) and isinstance(node.func, ast.Attribute) and norm(node.func) in ("self.stack.append",) and node.args:
                vals.append(node.args[0])
            if isinstance(node, ast.Call) and isinstance(node.func, ast.Attribute) and node.func.attr == "set" and len(node.args) == 2 and id(f) in natives:
                vals.append(node.args[1])
            for v in vals:
                if not (isinstance(v, ast.Attribute) and v.attr in opt):
                    continue
                n += 1
                key = f"{f.qual}:{norm(v)[:40]}"
                ats = [(norm(a).replace(" ", ""), p) for t, pol in known_conditions(node, f.node) for a, p in atoms(t, pol)]
                vt = norm(v).replace(" ", "")
                ok = any((a == f"{vt}isnotNone" and p) or (a == f"{vt}isNone" and not p) or (a.startswith(f"isinstance({vt},") and p) for a, p in ats)
                if ok:
                    rep.ok(rid, key)
                else:
                    rep.bad(rid, key, f"{f.qual} hands `{norm(v)}` to the script as it is ({short(node, 50)}): the attribute holds the host's None where there is nothing (the end of a prototype chain), and None is a value of no JavaScript type (typeof 'undefined', but !== undefined and != null)", f"{f.module.rel}:{node.lineno}")
    rep.ok(rid, "optional-attributes", {"attributes": sorted(opt), "direct_hand_overs_examined": n})


# ---- what was converted for the embedder does not come back into the script -----------------------------------
def python_valued_functions(ctx) -> Dict[int, Tuple[Func, str]]:
    """Functions whose result is a value converted FOR THE EMBEDDER: some return hands out the result of the
    JS-to-Python converter (a function named like `_to_python`, found by shape: it maps UNDEFINED/NULL to None and
    arrays to lists), or of another such function.  id -> (function, why)."""
    conv = [f for f in ctx.tree.funcs if not isinstance(f.node, ast.Lambda) and f.module.name == "context" and any(isinstance(r, ast.Return) and isinstance(r.value, ast.Constant) and r.value.value is None and any(pol and ("UNDEFINED" in norm(t) or "NULL" in norm(t)) for t, pol in guards_of(r, f.node)) for r in f.own_nodes()) and any(isinstance(r, ast.Return) and isinstance(r.value, (ast.ListComp, ast.List, ast.Dict, ast.DictComp)) for r in f.own_nodes())]
    out: Dict[int, Tuple[Func, str]] = {id(f): (f, "the JS-to-Python converter") for f in conv}
    changed = True
    while changed:
        changed = False
        for f in ctx.tree.funcs:
            if isinstance(f.node, ast.Lambda) or id(f) in out or f.module.name != "context":
                continue
            for r in f.own_nodes():
                if isinstance(r, ast.Return) and isinstance(r.value, ast.Call):
                    cs = ctx.cg.site_of_call.get(id(r.value))
                    if cs is not None and cs.kind == "resolved" and cs.targets and all(id(t) in out for t in cs.targets):
                        out[id(f)] = (f, f"returns {short(r.value, 40)}")
                        changed = True
                        break
    return out


def rule_embedder_values_stay_outside(ctx, rep, rid: str) -> None:
    """Context.eval/get hand Python lists, dicts and None to the embedder.  A function that scripts can call must not
    return (or store) such a value: inside the script it is an object of no JavaScript type."""
    rep.rule(rid, "no function that script code can reach returns the result of the embedder-side API (a function whose result went through the JS-to-Python converter) unless it is converted back: Python lists, dicts and None are not JavaScript values", floor=1)
    pv = python_valued_functions(ctx)
    if not pv:
        raise AnalysisError(f"{rid}: the JS-to-Python converter was not recognised")
    sr = ctx.facts.script_reachable()
    to_js = {f.name for f in ctx.tree.funcs if f.name in ("_to_js",)}
    n = 0
    for f in ctx.tree.funcs:
        if isinstance(f.node, ast.Lambda) or id(f) not in sr:
            continue
        if f.cls is not None and f.cls.name == "Context" and f.parent is None and (not f.name.startswith("_") or pv.get(id(f), (None, ""))[1] == "the JS-to-Python converter"):
            continue  # the embedder's own entry points and the converter: their result leaves the engine
        for c in f.own_nodes():
            if not isinstance(c, ast.Call):
                continue
            cs = ctx.cg.site_of_call.get(id(c))
            if cs is None or cs.kind != "resolved" or not cs.targets or not all(id(t) in pv for t in cs.targets):
                continue  # only calls whose callee is known (a receiver of unknown type with a method of the same name is not one)
            n += 1
            key = f"{f.qual}:{short(c, 40)}"
            p = getattr(c, "_parent", None)
            wrapped = isinstance(p, ast.Call) and isinstance(p.func, ast.Attribute) and p.func.attr in to_js
            discarded = isinstance(p, ast.Expr)
            if wrapped or discarded:
                rep.ok(rid, key, {"result": "converted back" if wrapped else "discarded"})
            else:
                tgt = next(t for t in cs.targets if id(t) in pv)
                rep.bad(rid, key, f"{f.qual}, which script code can reach, uses the result of {tgt.qual} ({pv[id(tgt)][1]}): that value was converted for the embedder, so the script receives Python lists, dicts and None where it expects arrays, objects and null (typeof says 'undefined', property reads give undefined)", f"{f.module.rel}:{c.lineno}")
    rep.ok(rid, "embedder-api", {"python_valued": sorted(f.qual for f, _ in pv.values()), "script_reachable_uses": n})


# ---- the converters build containers with the object model, not with the script's constructors ----------------
def rule_converters_use_object_model(ctx, rep, rid: str) -> None:
    """Array(3) is an array of length 3, Array(3, 4) one with two elements: a built-in that scripts call interprets its
    arguments by the script's conventions (counts them, converts them).  A boundary converter that hands converted
    members to such a built-in as positional arguments inherits those conventions: a list with a single number
    becomes an array of that length."""
    rep.rule(rid, "the branches of the host-to-script converters that build arrays and objects use the object model's own classes and methods (JSArray, JSObject, push, set, _elements); they never call a function that is also installed as a script-callable built-in (a constructor or method whose argument conventions are those of a script call) with the members as arguments", floor=1)
    natives = ctx.cg.natives
    # attributes that hold a native: self.X = <name of a function that is registered as a built-in>
    native_attrs: Dict[str, Func] = {}
    for f in ctx.tree.funcs:
        if isinstance(f.node, ast.Lambda):
            continue
        for a in f.own_nodes():
            if isinstance(a, ast.Assign) and isinstance(a.value, ast.Name):
                g = f.children.get(a.value.id)
                if g is not None and id(g) in natives:
                    for t in a.targets:
                        if isinstance(t, ast.Attribute) and norm(t.value) in ("self", "ctx"):
                            native_attrs[t.attr] = g
    n = 0
    for f in ctx.tree.funcs:
        if isinstance(f.node, ast.Lambda) or f.module.name != "context":
            continue
        for branch in f.own_nodes():
            if not (isinstance(branch, ast.If) and isinstance(branch.test, ast.Call) and norm(branch.test.func) == "isinstance" and len(branch.test.args) == 2 and norm(branch.test.args[1]) in ("list", "dict", "(list, tuple)", "tuple")):
                continue
            n += 1
            key = f"{f.qual}:{norm(branch.test.args[1])}-branch"
            bad = None
            for s_ in branch.body:
                for c in ast.walk(s_):
                    if isinstance(c, ast.Call) and isinstance(c.func, ast.Attribute) and norm(c.func.value) in ("self", "ctx") and c.func.attr in native_attrs and c.args:
                        bad = (c, native_attrs[c.func.attr])
                    if isinstance(c, ast.Call):
                        cs = ctx.cg.site_of_call.get(id(c))
                        if cs is not None and cs.kind == "resolved" and cs.targets and all(id(t) in natives for t in cs.targets) and c.args:
                            bad = (c, cs.targets[0])
            if bad is None:
                # the method that stores a dict member must treat every key alike: JSON and host dicts have no special names
                special = None
                for s_ in branch.body:
                    for c in ast.walk(s_):
                        if isinstance(c, ast.Call) and isinstance(c.func, ast.Attribute) and len(c.args) == 2 and isinstance(c.func.value, ast.Name) and c.func.attr not in ("set",):
                            for ci in ctx.tree.mod("values").classes.values():
                                mth = ci.methods.get(c.func.attr)
                                if mth is None or isinstance(mth.node, ast.Lambda):
                                    continue
                                ps = [p_ for p_ in mth.params() if p_ != "self"]
                                if not ps:
                                    continue
                                for cmp_ in mth.own_nodes():
                                    if isinstance(cmp_, ast.Compare) and len(cmp_.ops) == 1 and isinstance(cmp_.ops[0], (ast.Eq, ast.In)) and norm(cmp_.left) == ps[0] and any(isinstance(x, ast.Constant) and isinstance(x.value, str) for x in ast.walk(cmp_.comparators[0])):
                                        special = (c, mth, cmp_)
                if special is not None:
                    c, mth, cmp_ = special
                    rep.bad(rid, key, f"{f.qual} stores the members of a host dict with {short(c, 40)}, and {mth.qual} gives some names a meaning of their own (`{short(cmp_, 40)}`): a key of that name in a dict handed to set(), or in a JSON text, changes the object (its prototype) instead of becoming an own property - JSON.parse('{{\"__proto__\": {{\"x\": 1}}}}') has no own member and inherits x", f"{f.module.rel}:{c.lineno}")
                else:
                    rep.ok(rid, key)
            else:
                c, g = bad
                rep.bad(rid, key, f"{f.qual} builds the script value with {short(c, 50)}, and {g.qual} is the built-in `{natives[id(g)][1]}` that scripts call: it interprets its arguments as a script call does (a single numeric argument of Array is a length), so some host values convert to something else ([3] becomes an array of three undefined)", f"{f.module.rel}:{c.lineno}")
    if n == 0:
        raise AnalysisError(f"{rid}: no list/dict branch of a host-to-script converter found")


# ---- an arrow function has no this of its own ----------------------------------------------------------------------
def rule_arrow_this_is_lexical(ctx, rep, rid: str) -> None:
    """`this` inside an arrow function is the `this` of the code the arrow is written in.  With one THIS opcode that
    reads the frame's this_value, that takes three links: the compiler marks the code objects of arrow functions, the
    closure-creating handler remembers the creating frame's this_value on functions so marked, and the single place
    that builds call frames puts the remembered value into the frame, after bound functions were unwrapped and whatever
    the call form passed.  (A compiler that never emits THIS inside an arrow body needs none of this.)"""
    rep.rule(rid, "an arrow function runs with the this of its creation: either the compiler never emits the THIS opcode for an arrow body, or (a) only the arrow-function compiler marks a code object as arrow, (b) the handler that creates closures stores the creating frame's this_value on the function under that mark, and (c) the function that builds call frames replaces the caller's this by the stored one before the frame is made", floor=1)
    comp = ctx.tree.class_named("Compiler")
    df, chain = ctx.facts.vm_dispatcher()
    # (a) the mark
    marks = []
    for m in comp.methods.values():
        if isinstance(m.node, ast.Lambda):
            continue
        for c in m.own_nodes():
            if isinstance(c, ast.Call) and call_name(c) == "CompiledFunction":
                for kw in c.keywords:
                    if kw.arg and "arrow" in kw.arg and isinstance(kw.value, ast.Constant) and kw.value.value is True:
                        marks.append((m, kw.arg))
    if not marks:
        rep.bad(rid, "arrow:marked", "no code object is marked as an arrow function (CompiledFunction(.., <arrow flag>=True)): the interpreter cannot tell an arrow from an ordinary function, so `this` inside an arrow is that of its own call", comp.node and f"{comp.module.rel}:{comp.node.lineno}")
        return
    flag = marks[0][1]
    wrong = [m for m, _ in marks if "arrow" not in m.name]
    if wrong:
        rep.bad(rid, "arrow:marked", f"{wrong[0].qual} marks its code object as an arrow function although it does not compile arrow functions", wrong[0].loc)
    else:
        rep.ok(rid, "arrow:marked", {"by": sorted({m.name for m, _ in marks}), "flag": flag})
    # (b) the capture
    body = chain.body_of("MAKE_CLOSURE")
    if body is None:
        raise AnalysisError(f"{rid}: no MAKE_CLOSURE handler")
    cap = None
    for st in body:
        for a in ast.walk(st):
            if isinstance(a, ast.Assign) and len(a.targets) == 1 and isinstance(a.targets[0], ast.Attribute) and norm(a.value) == "frame.this_value":
                if any(pol and flag in norm(t) for t, pol in guards_of(a, df.node)):
                    cap = a
    if cap is None:
        rep.bad(rid, "arrow:this-captured", f"the MAKE_CLOSURE handler does not store frame.this_value on functions whose code is marked `{flag}`: nothing remembers the this an arrow function was created under", f"{df.module.rel}:{body[0].lineno}")
        return
    attr = cap.targets[0].attr
    rep.ok(rid, "arrow:this-captured", {"attribute": attr})
    # (c) the use: the function that constructs call frames for script functions
    builders = [f for f in ctx.tree.funcs if f.cls is df.cls and not isinstance(f.node, ast.Lambda) and any(isinstance(c, ast.Call) and call_name(c) == "CallFrame" and any(kw.arg == "this_value" and isinstance(kw.value, ast.Name) and kw.value.id in f.params() for kw in c.keywords) for c in f.own_nodes())]
    if not builders:
        raise AnalysisError(f"{rid}: no function builds call frames with a this_value taken from a local")
    for f in builders:
        key = f"{f.qual}:arrow-this-used"
        fr = next(c for c in f.own_nodes() if isinstance(c, ast.Call) and call_name(c) == "CallFrame" and any(kw.arg == "this_value" and isinstance(kw.value, ast.Name) and kw.value.id in f.params() for kw in c.keywords))
        tv = next(kw.value.id for kw in fr.keywords if kw.arg == "this_value")
        sets = [a for a in f.own_nodes() if isinstance(a, ast.Assign) and any(isinstance(t, ast.Name) and t.id == tv for t in a.targets) and isinstance(a.value, ast.Attribute) and a.value.attr == attr and a.lineno < fr.lineno]
        if not sets:
            rep.bad(rid, key, f"{f.qual} builds the call frame with this_value={tv} and never replaces it by the function's `{attr}`: an arrow function runs with the this of its own call (undefined for a plain call, the array for a callback, whatever call/apply pass) instead of the this it was created under", f"{f.module.rel}:{fr.lineno}")
            continue
        # after the bound-function unwrapping, so that it is the arrow's own attribute that is read
        unwrap = [a for a in f.own_nodes() if isinstance(a, ast.Assign) and any(isinstance(t, ast.Name) and t.id == norm(sets[0].value.value) for t in a.targets) and "_original" in norm(a.value)]
        if unwrap and sets[0].lineno < max(u.lineno for u in unwrap):
            rep.bad(rid, key, f"{f.qual} reads `{attr}` before it unwraps a bound function: for a bound arrow function the attribute of the wrapper is read, which has none", f"{f.module.rel}:{sets[0].lineno}")
        else:
            rep.ok(rid, key, {"this_value": tv, "from": attr})


# ---- deleting an accessor removes both of its halves ------------------------------------------------------------
def rule_delete_clears_every_table(ctx, rep, rid: str) -> None:
    """An own property lives in up to two of the object's dictionaries: a data property in the value table, an accessor
    in the getter table, the setter table or both.  `delete` has to leave the key in none of them: stopping at the
    first table that knows the key leaves the setter of a get/set pair behind - `in` still answers true and an
    assignment still runs the stale setter."""
    rep.rule(rid, "the object model's delete removes the key from the value, getter and setter dictionaries in one call: every removal is reached on the way to the successful return, none is skipped because an earlier dictionary already held the key", floor=1)
    jo = next((ci for lst in ctx.tree.classes.values() for ci in lst if ci.name == "JSObject"), None)
    if jo is None or "delete" not in jo.methods:
        raise AnalysisError(f"{rid}: JSObject.delete not found")
    f = jo.methods["delete"]
    tables = ("_properties", "_getters", "_setters")
    key = f"{f.qual}:all-tables"
    # form 1: a loop over the dictionaries
    for l in f.own_nodes():
        if isinstance(l, ast.For) and isinstance(l.iter, (ast.Tuple, ast.List)) and {e.attr for e in l.iter.elts if isinstance(e, ast.Attribute)} >= {"_getters", "_setters"}:
            leaves = [x for b in l.body for x in ast.walk(b) if isinstance(x, (ast.Return, ast.Break))]
            if leaves:
                rep.bad(rid, key, f"{f.qual} walks the dictionaries and leaves the loop (line {leaves[0].lineno}) at the first one that holds the key: of a get/set pair only the getter is removed, so after `delete o.k` the setter is still there ('k' in o is true, o.k = v runs it)", f"{f.module.rel}:{leaves[0].lineno}")
            else:
                rep.ok(rid, key, {"form": "loop over all dictionaries"})
            return
    # form 2: one removal per dictionary, all on the way to the final return
    removals = {}
    for x in f.own_nodes():
        for t in tables:
            if isinstance(x, ast.Delete) and any(f"self.{t}" in norm(tg) for tg in x.targets):
                removals[t] = x
            if isinstance(x, ast.Call) and isinstance(x.func, ast.Attribute) and x.func.attr == "pop" and norm(x.func.value) == f"self.{t}":
                removals[t] = x
    missing = [t for t in tables if t not in removals]
    if missing:
        rep.bad(rid, key, f"{f.qual} never removes the key from self.{missing[0]}: a property kept there survives `delete`", f.loc)
        return
    cfg = ctx.facts.cfg(f)
    order = sorted(removals.values(), key=lambda x: x.lineno)
    bad = None
    for a, b in zip(order, order[1:]):
        an = [nd for nd in cfg.nodes if nd.ast is not None and any(y is a for y in ast.walk(nd.ast))]
        bn = {nd.id for nd in cfg.nodes if nd.ast is not None and any(y is b for y in ast.walk(nd.ast))}
        for s0 in an:
            p = cfg.path_avoiding(s0.id, lambda nd: nd.id == cfg.exit.id, bn, None, start_succ=True)
            if p is not None and not any(x.kind == "raise" for x in p):
                bad = (a, b, p)
    if bad is None:
        rep.ok(rid, key, {"form": "one removal per dictionary, none skippable"})
    else:
        a, b, p = bad
        rep.bad(rid, key, f"{f.qual} can return after `{short(a, 40)}` without reaching `{short(b, 40)}` (lines {[x.line for x in p if x.line][:6]}): one half of an accessor pair stays behind after `delete`", f"{f.module.rel}:{a.lineno}")


def rule_constructor_result_objects_include_functions(ctx, rep, rid: str) -> None:
    """`new F` yields what F returns when that is an object - and a function is one.  The interpreter keeps functions
    in a class of their own, so the test on the returned value has to name it next to the object class."""
    rep.rule(rid, "where a return from a constructor call decides between the returned value and the new instance, the `is an object` test accepts the function class as well as the object class", floor=1)
    df, _ = ctx.facts.vm_dispatcher()
    n = 0
    for m in df.cls.all_methods:
        if isinstance(m.node, ast.Lambda):
            continue
        for t in m.own_nodes():
            if not (isinstance(t, ast.If) and "is_constructor" in norm(t.test)):
                continue
            for c in ast.walk(t):
                if isinstance(c, ast.Call) and norm(c.func) == "isinstance" and len(c.args) == 2:
                    names = {norm(e) for e in (c.args[1].elts if isinstance(c.args[1], ast.Tuple) else [c.args[1]])}
                    if "JSObject" not in names:
                        continue
                    n += 1
                    key = f"{m.qual}:constructor-result@{short(c, 40)}"
                    if "JSFunction" in names:
                        rep.ok(rid, key)
                    else:
                        rep.bad(rid, key, f"{m.qual} keeps what a constructor returns only if `{short(c, 50)}`: a returned function is not a JSObject here, so `function A(){{ return function(){{}} }}; typeof new A()` is 'object' (the discarded instance) instead of 'function'", f"{m.module.rel}:{c.lineno}")
            # the same decision made on the script-visible type: typeof null is "object" too
            for c in ast.walk(t):
                if isinstance(c, ast.Compare) and isinstance(c.left, ast.Call) and norm(c.left.func) in ("js_typeof", "self._typeof") and len(c.ops) == 1 and isinstance(c.ops[0], (ast.In, ast.NotIn)) and isinstance(c.comparators[0], (ast.Tuple, ast.List, ast.Set)):
                    kinds = {e.value for e in c.comparators[0].elts if isinstance(e, ast.Constant)}
                    if "object" not in kinds:
                        continue
                    n += 1
                    key = f"{m.qual}:constructor-result@{short(c, 40)}"
                    arg = norm(c.left.args[0]) if c.left.args else "?"
                    null_excluded = any(isinstance(x, ast.Compare) and norm(x.left) == arg and any(norm(k) == "NULL" for k in x.comparators) for x in ast.walk(t.test if t.test is not c else t)) or any(isinstance(x, ast.Compare) and x is not c and norm(x.left) == arg and any(norm(k) == "NULL" for k in x.comparators) for p_ in _enclosing_tests(c) for x in ast.walk(p_))
                    if "function" not in kinds:
                        rep.bad(rid, key, f"{m.qual} keeps what a constructor returns only if `{short(c, 50)}`: a returned function is dropped", f"{m.module.rel}:{c.lineno}")
                    elif not null_excluded:
                        rep.bad(rid, key, f"{m.qual} decides by `{short(c, 50)}` whether a constructor returned an object: typeof null is 'object' as well, so `function A(){{ return null }}; new A()` is null instead of the new instance", f"{m.module.rel}:{c.lineno}")
                    else:
                        rep.ok(rid, key)
    if n == 0:
        raise AnalysisError(f"{rid}: no object test on the result of a constructor call found")


def _enclosing_tests(n):
    p = getattr(n, "_parent", None)
    while p is not None:
        if isinstance(p, (ast.If, ast.IfExp, ast.While)):
            yield p.test
        p = getattr(p, "_parent", None)


# ---- questions about OWN properties are answered from the receiver's own tables --------------------------------


_OWN_NATIVES = ("hasOwnProperty", "getOwnPropertyDescriptor", "getOwnPropertyNames", "keys", "values", "entries")


def chain_walkers(ctx) -> Dict[str, str]:
    """method name -> why, for the methods of the object-model classes (values module) that follow the prototype link,
    themselves or through another method of the object they call on self."""
    got = ctx.__dict__.get("_chain_walkers")
    if got is not None:
        return got
    vals = ctx.tree.mod("values")
    out: Dict[str, str] = {}
    methods = [m for ci in vals.classes.values() for m in ci.methods.values() if not isinstance(m.node, ast.Lambda)]
    for m in methods:
        if m.name in ("__init__",) or any(isinstance(d, ast.Attribute) and d.attr == "setter" for d in getattr(m.node, "decorator_list", [])):
            continue
        if any(isinstance(a, ast.Attribute) and a.attr in ("_prototype", "_proto") and isinstance(a.ctx, ast.Load) for a in m.own_nodes()):
            out.setdefault(m.name, f"{m.qual} reads the prototype link")
    changed = True
    while changed:
        changed = False
        for m in methods:
            if m.name in out:
                continue
            for c in m.own_nodes():
                if isinstance(c, ast.Call) and isinstance(c.func, ast.Attribute) and norm(c.func.value) == "self" and c.func.attr in out:
                    out[m.name] = f"{m.qual} calls self.{c.func.attr}(), and {out[c.func.attr]}"
                    changed = True
                    break
    ctx.__dict__["_chain_walkers"] = out
    return out


def rule_own_questions_stay_on_the_receiver(ctx, rep, rid: str) -> None:
    """hasOwnProperty, Object.getOwnPropertyDescriptor/Names and Object.keys/values/entries speak about the receiver
    alone.  A helper that reads well as an own test but is built on the chain-walking lookups (`get_getter`, `get`)
    answers yes for an accessor that is merely inherited."""
    rep.rule(rid, "the natives that answer questions about OWN properties call no method of the object model that follows the prototype link (directly or through other methods), and do not read the link themselves", floor=3)
    walkers = chain_walkers(ctx)
    n = 0
    for i, (f, jsname, how) in sorted(ctx.cg.natives.items(), key=lambda kv: kv[1][0].qual):
        if jsname not in _OWN_NATIVES or isinstance(f.node, ast.Lambda):
            continue
        n += 1
        key = f"{f.qual}:{jsname}:own-only"
        bad = None
        # keys that were taken from the receiver's own key list: reading their VALUE through a walking getter finds
        # the receiver's own entry first
        own_keys = set()
        for l in f.own_nodes():
            gens = [(l.target, l.iter)] if isinstance(l, ast.For) else ([(g.target, g.iter) for g in l.generators] if isinstance(l, (ast.ListComp, ast.GeneratorExp, ast.SetComp, ast.DictComp)) else [])
            for tg, it in gens:
                if isinstance(tg, ast.Name) and isinstance(it, ast.Call) and isinstance(it.func, ast.Attribute) and it.func.attr in ("keys", "own_keys", "_own_keys") or isinstance(tg, ast.Name) and isinstance(it, ast.Attribute) and it.attr in ("_properties", "_getters", "_setters"):
                    own_keys.add(tg.id)
        for c in f.own_nodes():
            if isinstance(c, ast.Call) and isinstance(c.func, ast.Attribute) and c.func.attr in walkers and isinstance(c.func.value, ast.Name) and c.func.value.id != "self":
                if c.args and isinstance(c.args[0], ast.Name) and c.args[0].id in own_keys:
                    continue
                # a QUESTION: the answer decides something (a condition, a returned verdict); a value read that is
                # stored or handed on is not one
                q, child, question = getattr(c, "_parent", None), c, False
                while q is not None and not isinstance(q, ast.stmt):
                    if isinstance(q, (ast.BoolOp, ast.Compare)) or (isinstance(q, ast.UnaryOp) and isinstance(q.op, ast.Not)) or (isinstance(q, ast.IfExp) and q.test is child):
                        question = True
                    if isinstance(q, ast.Call):
                        break
                    child, q = q, getattr(q, "_parent", None)
                if isinstance(q, (ast.If, ast.While)) and q.test is child:
                    question = True
                if isinstance(q, ast.Return) and q.value is c:
                    question = True
                if isinstance(q, ast.Assign) and q.value is c and isinstance(q.targets[0], ast.Name):
                    v_ = q.targets[0].id
                    question = any(isinstance(t_, (ast.If, ast.While)) and any(isinstance(x, ast.Name) and x.id == v_ for x in ast.walk(t_.test)) for t_ in f.own_nodes())
                if not question:
                    continue
                bad = (c.lineno, f"calls `{short(c, 40)}`: {walkers[c.func.attr]}")
                break
            if isinstance(c, ast.Attribute) and c.attr == "_prototype" and isinstance(c.ctx, ast.Load):
                bad = (c.lineno, f"reads `{norm(c)}`")
                break
        if bad is None:
            rep.ok(rid, key)
        else:
            rep.bad(rid, key, f"{f.qual} (script name {jsname}) {bad[1]}: an accessor or value that the receiver merely inherits is reported as its own (`Object.create({{get v(){{}}}}).hasOwnProperty('v')` is true)", f"{f.module.rel}:{bad[0]}")
    if n < 3:
        raise AnalysisError(f"{rid}: fewer than three own-property natives found ({n})")


# ---- one spelling of "nothing" per function ------------------------------------------------------------------


def rule_one_spelling_of_nothing(ctx, rep, rid: str, modules=("vm", "context", "values")) -> None:
    """A helper that answers 'unknown' as None on one exit and as a tuple of Nones on another has two spellings of the
    same answer; the caller tests one of them (`if location is not None`) and unpacks the other, and the host's None
    then travels on as if it were data - into a property of a script object, for instance (e.lineNumber holding
    Python's None: typeof 'undefined', yet !== undefined)."""
    rep.rule(rid, "no function of the runtime returns both a bare None and a tuple made of Nones: 'nothing' has one spelling per function, so that the caller's single test covers every exit", floor=1)
    n = 0
    for f in ctx.tree.funcs:
        if isinstance(f.node, ast.Lambda) or f.module.name not in modules:
            continue
        rets = [r for r in f.own_nodes() if isinstance(r, ast.Return)]
        bare = [r for r in rets if r.value is None or (isinstance(r.value, ast.Constant) and r.value.value is None)]
        tup = [r for r in rets if isinstance(r.value, ast.Tuple) and r.value.elts and all(isinstance(e, ast.Constant) and e.value is None for e in r.value.elts)]
        if not tup:
            continue
        n += 1
        key = f"{f.qual}:nothing"
        if bare:
            rep.bad(rid, key, f"{f.qual} returns a bare None at line {bare[0].lineno} and `{short(tup[0].value, 30)}` at line {tup[0].lineno}: a caller that tests the result with `is not None` lets the tuple of Nones through and unpacks host Nones into what it builds (the lineNumber / columnNumber of an error object a script can catch)", f"{f.module.rel}:{tup[0].lineno}")
        else:
            rep.ok(rid, key)
    if n == 0:
        rep.ok(rid, "no-tuple-of-nones", {"note": "no function answers with a tuple of Nones"})


def rule_delete_answers_gone(ctx, rep, rid: str) -> None:
    """`delete o.k` answers whether the property is gone afterwards - true also when it was never there.  The object
    model's own delete reports whether it FOUND something; handing that flag to the script turns `delete o.missing`
    into false."""
    rep.rule(rid, "the interpreter's delete helper does not return the object model's found-something flag as the result of the delete operator", floor=1)
    df, _ = ctx.facts.vm_dispatcher()
    n = 0
    for m in df.cls.all_methods:
        if isinstance(m.node, ast.Lambda) or "delete" not in m.name:
            continue
        for r in m.own_nodes():
            if isinstance(r, ast.Return) and r.value is not None:
                n += 1
                key = f"{m.qual}:return@{short(r, 30)}"
                if isinstance(r.value, ast.Call) and isinstance(r.value.func, ast.Attribute) and r.value.func.attr in ("delete", "pop", "remove", "discard"):
                    rep.bad(rid, key, f"{m.qual} returns `{short(r.value, 40)}` - whether something was removed - as the value of the delete operator: `var o = {{a: 1}}; delete o.b` is false where ECMAScript says true (the property is gone afterwards)", f"{m.module.rel}:{r.lineno}")
                else:
                    rep.ok(rid, key)
    if n == 0:
        raise AnalysisError(f"{rid}: the interpreter's delete helper was not found")


def rule_native_arrays_get_the_prototype(ctx, rep, rid: str) -> None:
    """Every array a script can hold is an Array: `[1].map(f) instanceof Array`, and getPrototypeOf agrees with that of a
    literal.  The natives build their results with the bare host class; the one place all of them pass on their way to
    the script - the helper that calls a host function for the interpreter - gives a result array without a
    prototype the realm's Array.prototype, and the converters do the same for the lists and dicts they build."""
    rep.rule(rid, "the helper through which every native result reaches the script links an array result that has no prototype to the Array prototype, and the converter from host values sets the prototype of the containers it builds", floor=2)
    vmcls = ctx.facts.vm_dispatcher()[0].cls
    from .recursion import _host_call_helpers

    helpers = _host_call_helpers(ctx)
    n = 0
    for hid, (h, ci, li) in helpers.items():
        if h.cls is not vmcls:
            continue
        n += 1
        key = f"{h.qual}:array-result-linked"
        links = [a for a in h.own_nodes() if isinstance(a, ast.Assign) and any(isinstance(t, ast.Attribute) and t.attr == "_prototype" for t in a.targets)]
        tested = any(isinstance(c, ast.Call) and norm(c.func) == "isinstance" and len(c.args) == 2 and "JSArray" in norm(c.args[1]) for c in h.own_nodes())
        if links and tested:
            rep.ok(rid, key)
        else:
            rep.bad(rid, key, f"{h.qual} hands the result of a native to the script as it is: the arrays that map, filter, slice, concat, split, Object.keys return are bare host objects without a prototype, so `[1].map(f) instanceof Array` is false and Object.getPrototypeOf differs from that of a literal", h.loc)
    if n == 0:
        raise AnalysisError(f"{rid}: the interpreter's host-call helper was not found")
    tj = ctx.tree.func("context:Context._to_js")
    key = f"{tj.qual}:containers-linked"
    made = [a for a in tj.own_nodes() if isinstance(a, ast.Assign) and isinstance(a.value, ast.Call) and norm(a.value.func) in ("JSArray", "JSObject") and len(a.targets) == 1 and isinstance(a.targets[0], ast.Name)]
    unlinked = []
    for a in made:
        v = a.targets[0].id
        has_arg = bool(a.value.args) and norm(a.value.func) == "JSObject"
        linked = has_arg or any(isinstance(x, ast.Assign) and any(norm(t) == f"{v}._prototype" for t in x.targets) for x in tj.own_nodes())
        if not linked:
            unlinked.append(a)
    if made and not unlinked:
        rep.ok(rid, key, {"containers": len(made)})
    elif not made:
        rep.ok(rid, key, {"note": "containers are built elsewhere (judged by C11-R10)"})
    else:
        rep.bad(rid, key, f"{tj.qual} builds `{short(unlinked[0].value, 20)}` (line {unlinked[0].lineno}) without a prototype: a list or dict the embedder hands in is not an Array/Object for instanceof, and has none of the inherited members a script-made one has", f"{tj.module.rel}:{unlinked[0].lineno}")


def rule_function_prototype_objects_are_ordinary(ctx, rep, rid: str) -> None:
    """The object created as F.prototype when a function is made is an ordinary object: its own prototype is
    Object.prototype.  Left without one, everything `new F` makes has a chain that ends too early -
    `new F() instanceof Object` is false."""
    rep.rule(rid, "where a closure is created, the object installed as the function's prototype property is linked to the Object prototype (like an object literal) before it is installed", floor=1)
    df, chain = ctx.facts.vm_dispatcher()
    body = chain.body_of("MAKE_CLOSURE")
    if body is None:
        raise AnalysisError(f"{rid}: the dispatcher has no MAKE_CLOSURE branch")
    made = [a for s_ in body for a in ast.walk(s_) if isinstance(a, ast.Assign) and isinstance(a.value, ast.Call) and norm(a.value.func) == "JSObject" and len(a.targets) == 1 and isinstance(a.targets[0], ast.Name)]
    installed = [a for s_ in body for a in ast.walk(s_) if isinstance(a, ast.Assign) and any(isinstance(t, ast.Attribute) and t.attr == "_prototype" for t in a.targets) and isinstance(a.value, ast.Name) and a.value.id in {m.targets[0].id for m in made}]
    if not installed:
        raise AnalysisError(f"{rid}: MAKE_CLOSURE installs no prototype object")
    for a in installed:
        v = a.value.id
        key = f"{df.qual}:MAKE_CLOSURE:{v}:inherits-Object.prototype"
        mk = next(m for m in made if m.targets[0].id == v)
        linked = bool(mk.value.args) or any(isinstance(x, ast.Assign) and any(norm(t) == f"{v}._prototype" for t in x.targets) for s_ in body for x in ast.walk(s_))
        if linked:
            rep.ok(rid, key)
        else:
            rep.bad(rid, key, f"the MAKE_CLOSURE handler installs `{v} = JSObject()` as the function's prototype property without giving it a prototype of its own: `function F(){{}}; new F() instanceof Object` is false and Object.getPrototypeOf(F.prototype) is not Object.prototype", f"{df.module.rel}:{mk.lineno}")


def rule_functions_have_a_chain(ctx, rep, rid: str) -> None:
    """Functions are objects: `f instanceof Function`, `f instanceof Object`, and Object.getPrototypeOf(f) is
    Function.prototype.  The interpreter keeps script functions in a class that is not the object class; an instanceof
    that answers false for everything outside the object class, or a getPrototypeOf that answers null, cuts functions
    off from the chain they have."""
    rep.rule(rid, "the instanceof handler does not dismiss a function operand with the non-object answer (the function class is named where the operand is tested for being an object), and Object.getPrototypeOf has a branch for the function class", floor=2)
    df, chain = ctx.facts.vm_dispatcher()
    body = chain.body_of("INSTANCEOF")
    if body is None:
        raise AnalysisError(f"{rid}: the dispatcher has no INSTANCEOF branch")
    key = f"{df.qual}:INSTANCEOF:function-operand"
    dismiss = [t for s_ in body for t in ast.walk(s_) if isinstance(t, ast.If) and isinstance(t.test, ast.UnaryOp) and isinstance(t.test.op, ast.Not) and isinstance(t.test.operand, ast.Call) and norm(t.test.operand.func) == "isinstance" and any(isinstance(c, ast.Call) and norm(c.func) == "self.stack.append" and c.args and isinstance(c.args[0], ast.Constant) and c.args[0].value is False for b in t.body for c in ast.walk(b))]
    bad = [t for t in dismiss if "obj" in norm(t.test.operand.args[0]) and "JSFunction" not in norm(t.test.operand.args[1])]
    if bad:
        rep.bad(rid, key, f"the INSTANCEOF handler answers false as soon as `{short(bad[0].test, 50)}`: a function is not of the object class here, so `(function(){{}}) instanceof Function` and `instanceof Object` are false", f"{df.module.rel}:{bad[0].lineno}")
    else:
        rep.ok(rid, key)
    gp = next((f for i, (f, js, how) in ctx.cg.natives.items() if js == "getPrototypeOf" and not isinstance(f.node, ast.Lambda)), None)
    if gp is None:
        raise AnalysisError(f"{rid}: native getPrototypeOf not found")
    key = f"{gp.qual}:function-operand"
    if any(isinstance(c, ast.Call) and norm(c.func) == "isinstance" and len(c.args) == 2 and "JSFunction" in norm(c.args[1]) for c in gp.own_nodes()):
        rep.ok(rid, key)
    else:
        rep.bad(rid, key, f"{gp.qual} has no branch for a function argument: Object.getPrototypeOf(function(){{}}) is null instead of Function.prototype", gp.loc)
