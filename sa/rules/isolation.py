"""State-isolation and determinism rules (C12, C15)."""

from __future__ import annotations

import ast
from typing import Dict, List, Optional, Set, Tuple

from ..cfg import CFG
from ..core import AnalysisError, Func, call_name, norm, short, walk_no_nested
from ..util import atoms, elapsed_compare, guards_of

READONLY_TABLES = {
    "KEYWORDS": "keyword -> token type map, read by the lexer",
    "PRECEDENCE": "binary operator precedence, read by the parser",
    "OPCODE_INFO": "regex opcode documentation/arity table, read by disassemble",
    "__all__": "export list",
    "BUILTIN": "",
}
SINGLETON_CLASSES = {"JSUndefined", "JSNull"}
MUTATORS = {"update", "setdefault", "pop", "popitem", "clear", "append", "extend", "insert", "remove", "add", "discard", "sort", "reverse"}


def _immutable_value(v: ast.AST) -> bool:
    if v is None:
        return True
    if isinstance(v, ast.Constant):
        return True
    if isinstance(v, ast.Tuple):
        return all(_immutable_value(e) for e in v.elts)
    if isinstance(v, (ast.UnaryOp, ast.BinOp, ast.Compare, ast.BoolOp)):
        return all(_immutable_value(c) for c in ast.iter_child_nodes(v) if isinstance(c, ast.expr))
    if isinstance(v, ast.Call):
        fn = norm(v.func)
        if fn in ("frozenset", "auto", "tuple", "float", "int", "str", "bool", "field"):
            return True
        if fn in SINGLETON_CLASSES:
            return True
        if fn in ("TypeVar", "NewType", "re.compile"):
            return True
        return False
    if isinstance(v, ast.Subscript):
        # typing aliases: Union[...], Optional[...], List[...]
        return norm(v.value).split(".")[-1] in ("Union", "Optional", "List", "Dict", "Tuple", "Callable", "Set", "Type")
    if isinstance(v, (ast.Name, ast.Attribute)):
        return True  # alias of a class / function / constant (e.g. JSContext = Context)
    if isinstance(v, ast.JoinedStr):
        return True
    return False


def classify_binding(name: str, value: Optional[ast.AST]) -> Optional[str]:
    """None if harmless; otherwise a reason string (module- or class-level mutable state)."""
    if _immutable_value(value):
        return None
    if isinstance(value, (ast.Dict, ast.List, ast.Set, ast.ListComp, ast.DictComp, ast.SetComp)):
        return f"mutable {type(value).__name__.lower()} literal"
    if isinstance(value, ast.Call):
        return f"object constructed at import time by {norm(value.func)}(...)"
    return f"unclassified value {short(value, 40)}"


def _mutation_sites(ctx, name: str) -> List[str]:
    out = []
    for m in ctx.tree.modules.values():
        for n in ast.walk(m.tree):
            if isinstance(n, (ast.Assign, ast.AugAssign, ast.Delete)):
                tgts = n.targets if isinstance(n, (ast.Assign, ast.Delete)) else [n.target]
                for t in tgts:
                    if isinstance(t, ast.Subscript) and norm(t.value).split(".")[-1] == name:
                        out.append(f"{m.rel}:{n.lineno}")
            if isinstance(n, ast.Call) and isinstance(n.func, ast.Attribute) and n.func.attr in MUTATORS and norm(n.func.value).split(".")[-1] == name:
                out.append(f"{m.rel}:{n.lineno}")
    return out


_READ_METHODS = {"get", "items", "keys", "values", "index", "count", "copy", "__contains__", "join", "startswith", "endswith"}
_COPYING_CALLS = {"sorted", "list", "tuple", "set", "frozenset", "dict", "len", "iter", "enumerate", "reversed", "any", "all", "min", "max", "sum", "zip", "map", "filter", "str", "repr"}


_PURE_HOST = {"zip", "range", "ord", "chr", "enumerate", "str", "int", "len", "sorted", "dict", "list", "tuple", "set", "frozenset", "map", "hex", "format", "repr", "min", "max"}


def _constant_expression(e: ast.AST, bound: Optional[Set[str]] = None) -> bool:
    """e is computed from literals, comprehension variables and pure host functions only."""
    bound = set(bound or ())
    for c in ast.walk(e):
        if isinstance(c, (ast.ListComp, ast.SetComp, ast.DictComp, ast.GeneratorExp)):
            for g in c.generators:
                bound |= {x.id for x in ast.walk(g.target) if isinstance(x, ast.Name)}
    for c in ast.walk(e):
        if isinstance(c, ast.Name) and c.id not in bound and c.id not in _PURE_HOST:
            return False
        if isinstance(c, ast.Call) and not (isinstance(c.func, ast.Name) and c.func.id in _PURE_HOST):
            return False
        if isinstance(c, (ast.Attribute, ast.Lambda, ast.Await, ast.Yield)):
            return False
    return True


def _constant_comprehension(value: ast.AST) -> bool:
    return _constant_expression(value)


def _read_only_by_use(ctx, m, name: str, value: ast.AST) -> Optional[str]:
    """None when the module-level display `name` is a constant table: its elements are immutable constants and every
    occurrence of the name, in its module and in the modules that import it, only reads it (subscript load,
    membership, iteration, .get/.items/..., len/sorted/copying constructors).  Otherwise the reason."""
    if isinstance(value, (ast.DictComp, ast.ListComp, ast.SetComp)):
        elems = []  # judged by _constant_comprehension: built from constants and pure host functions
    elif isinstance(value, ast.Dict):
        elems = [k for k in value.keys if k is not None] + list(value.values)
        if any(k is None for k in value.keys):
            return "built from another mapping"
    elif isinstance(value, (ast.List, ast.Set, ast.Tuple)):
        elems = list(value.elts)
    else:
        return "not a display"
    if not all(_immutable_value(e) for e in elems):
        return "holds a mutable element"
    users = [m] + [o for o in ctx.tree.modules.values() if o is not m and any(src == m.name and (attr == name) for src, attr in o.imports.values())]
    for o in users:
        local = name if o is m else next((ln for ln, (src, attr) in o.imports.items() if src == m.name and attr == name), name)
        for n in ast.walk(o.tree):
            if not (isinstance(n, ast.Name) and n.id == local):
                continue
            p = getattr(n, "_parent", None)
            if isinstance(n.ctx, ast.Store):
                if o is m and isinstance(p, (ast.Assign, ast.AnnAssign)) and getattr(p, "_parent", None) is o.tree:
                    continue  # the binding itself
                return f"rebound at {o.rel}:{n.lineno}"
            if isinstance(n.ctx, ast.Del):
                return f"deleted at {o.rel}:{n.lineno}"
            if isinstance(p, ast.Subscript) and p.value is n:
                if isinstance(p.ctx, ast.Load):
                    continue
                return f"an entry is written at {o.rel}:{n.lineno}"
            if isinstance(p, ast.Attribute) and p.value is n:
                gp = getattr(p, "_parent", None)
                if p.attr in _READ_METHODS and isinstance(gp, ast.Call) and gp.func is p:
                    continue
                # filled in by a statement of the module itself: part of building the table at import
                ggp = getattr(gp, "_parent", None)
                if o is m and isinstance(gp, ast.Call) and gp.func is p and isinstance(ggp, ast.Expr) and getattr(ggp, "_parent", None) is o.tree and p.attr in ("update", "append", "extend", "add", "setdefault") and all(_constant_expression(a) for a in gp.args):
                    continue
                return f".{p.attr} at {o.rel}:{n.lineno}"
            if isinstance(p, ast.Compare) and any(c is n for c in p.comparators) and all(isinstance(op, (ast.In, ast.NotIn)) for op in p.ops):
                continue
            if isinstance(p, (ast.For, ast.comprehension)) and p.iter is n:
                continue
            if isinstance(p, ast.Call) and n in p.args and isinstance(p.func, ast.Attribute) and p.func.attr in ("translate", "join", "startswith", "endswith"):
                continue  # host string methods only read their argument
            if isinstance(p, ast.Call) and n in p.args and isinstance(p.func, ast.Name) and p.func.id in _COPYING_CALLS:
                continue
            if isinstance(p, ast.Starred):
                continue
            if isinstance(p, ast.alias):
                continue
            return f"used at {o.rel}:{n.lineno} in a way that may hand the table out ({type(p).__name__})"
    return None


# ---- a process-wide memo table is harmless when its key determines its value ------------------------------
WHOLE = "<whole>"


def _param_usage(ctx, f: Func, p: str, depth: int = 0, seen=None) -> Set[str]:
    """What of parameter p does f's result depend on?  A set of single letters when every use is a membership test
    `"c" in p` (directly, in a callee it is handed to, or through an attribute a constructor stores it in);
    {WHOLE} otherwise."""
    seen = seen if seen is not None else set()
    if (id(f), p) in seen or depth > 4:
        return {WHOLE}
    seen.add((id(f), p))
    out: Set[str] = set()
    scopes = [f] + [h for h in f.children.values() if not isinstance(h.node, ast.Lambda) and p not in h.params()]
    for h in scopes:
        for u in h.own_nodes():
            if not (isinstance(u, ast.Name) and u.id == p and isinstance(u.ctx, ast.Load)):
                continue
            out |= _use(ctx, h, u, depth, seen)
            if WHOLE in out:
                return {WHOLE}
    return out


def _use(ctx, h: Func, u: ast.AST, depth: int, seen) -> Set[str]:
    par = getattr(u, "_parent", None)
    if isinstance(par, ast.Compare) and len(par.ops) == 1 and isinstance(par.ops[0], (ast.In, ast.NotIn)) and par.comparators[0] is u and isinstance(par.left, ast.Constant) and isinstance(par.left.value, str) and len(par.left.value) == 1:
        return {par.left.value}
    if isinstance(par, ast.Call) and u in par.args and not any(isinstance(a, ast.Starred) for a in par.args):
        cs = ctx.cg.site_of_call.get(id(par))
        if cs is not None and cs.kind == "resolved" and cs.targets:
            res: Set[str] = set()
            for tgt in cs.targets:
                if isinstance(tgt.node, ast.Lambda):
                    return {WHOLE}
                ps = [a.arg for a in tgt.node.args.args]
                if ps and ps[0] in ("self", "cls"):
                    ps = ps[1:]
                i = par.args.index(u)
                if i >= len(ps):
                    return {WHOLE}
                res |= _param_usage(ctx, tgt, ps[i], depth + 1, seen)
            return res
        return {WHOLE}
    if isinstance(par, ast.Assign) and par.value is u and len(par.targets) == 1 and isinstance(par.targets[0], ast.Attribute) and norm(par.targets[0].value) == "self" and h.cls is not None:
        attr = par.targets[0].attr
        res = set()
        for m in h.cls.all_methods:
            if isinstance(m.node, ast.Lambda):
                continue
            for x in m.own_nodes():
                if isinstance(x, ast.Attribute) and x.attr == attr and norm(x.value) == "self" and isinstance(x.ctx, ast.Load):
                    res |= _use(ctx, m, x, depth + 1, seen)
                    if WHOLE in res:
                        return {WHOLE}
        return res
    return {WHOLE}


def memo_table(ctx, m, name: str) -> Optional[Tuple[bool, str]]:
    """Is the module-level dict `name` of module m a memo table of one module-level function?  None: not of that
    shape.  (True, note): its key determines the cached value.  (False, why): it does not."""
    refs = []
    for mod in ctx.tree.modules.values():
        if mod is not m and name in mod.imports:
            return None
    holder = None
    for f in ctx.tree.funcs:
        if f.module is not m:
            continue
        for n in f.own_nodes():
            if isinstance(n, ast.Name) and n.id == name:
                refs.append((f, n))
    if not refs:
        return None
    fs = {id(f) for f, _ in refs}
    if len(fs) != 1:
        return None
    holder = refs[0][0]
    if holder.parent is not None or holder.cls is not None or isinstance(holder.node, ast.Lambda):
        return None
    keys = []
    stores = []
    for _, n in refs:
        par = getattr(n, "_parent", None)
        gp = getattr(par, "_parent", None)
        if isinstance(par, ast.Attribute) and isinstance(gp, ast.Call) and gp.func is par:
            if par.attr == "get" and gp.args:
                keys.append(gp.args[0])
                continue
            if par.attr in ("pop", "clear", "popitem", "keys"):
                continue
            return None
        if isinstance(par, ast.Subscript) and par.value is n:
            if isinstance(par.ctx, ast.Store):
                keys.append(par.slice)
                stores.append(gp)
                continue
            if isinstance(par.ctx, ast.Del):
                continue
            keys.append(par.slice)
            continue
        if isinstance(par, ast.Compare) and n in par.comparators:
            keys.append(par.left)
            continue
        if isinstance(par, ast.Call) and norm(par.func) in ("len", "iter"):
            continue
        return None
    if not keys or not stores:
        return None
    ktxt = {norm(k) for k in keys}
    if len(ktxt) != 1:
        return (False, f"looked up under {sorted(ktxt)}: lookups and the store do not use one key")
    kexpr = keys[0]
    if isinstance(kexpr, ast.Name):
        asg = [a for a in holder.own_nodes() if isinstance(a, ast.Assign) and any(isinstance(t, ast.Name) and t.id == kexpr.id for t in a.targets)]
        if len(asg) != 1:
            return None
        kexpr = asg[0].value
    comps = list(kexpr.elts) if isinstance(kexpr, ast.Tuple) else [kexpr]
    params = [p for p in holder.params()]
    whole: Set[str] = set()
    letters: Dict[str, Set[str]] = {}
    for c in comps:
        if isinstance(c, ast.Name) and c.id in params:
            whole.add(c.id)
        elif isinstance(c, ast.Compare) and len(c.ops) == 1 and isinstance(c.ops[0], ast.In) and isinstance(c.left, ast.Constant) and isinstance(c.comparators[0], ast.Name) and c.comparators[0].id in params:
            letters.setdefault(c.comparators[0].id, set()).add(c.left.value)
        else:
            return (False, f"the key component `{norm(c)}` is neither a parameter nor a flag test of one")
    key_nodes = {id(x) for x in ast.walk(kexpr)}
    for p in params:
        if p in whole:
            continue
        need: Set[str] = set()
        for u in holder.own_nodes():
            if isinstance(u, ast.Name) and u.id == p and isinstance(u.ctx, ast.Load) and id(u) not in key_nodes:
                need |= _use(ctx, holder, u, 0, set())
        if not need:
            continue
        have = letters.get(p, set())
        if WHOLE in need:
            return (False, f"the cached value is computed from `{p}` as a whole, but the key records only {sorted(have) if have else 'nothing'} of it")
        if not need <= have:
            return (False, f"the computation reads {sorted(need)} of `{p}` (followed into the constructors and functions it is handed to), the key records only {sorted(have)}: a value compiled for one setting of {sorted(need - have)} is handed to requests with the other")
    # the shared values must stay untouched: attributes that receive them are never mutated
    recv: Set[str] = set()
    for f in ctx.tree.funcs:
        for a in f.own_nodes():
            if isinstance(a, ast.Assign) and isinstance(a.value, ast.Call) and isinstance(a.value.func, ast.Name) and a.value.func.id == holder.name and f.module is m:
                for t in a.targets:
                    for x in ([t] if not isinstance(t, ast.Tuple) else t.elts):
                        if isinstance(x, ast.Attribute):
                            recv.add(x.attr)
    for attr in sorted(recv):
        for mod in ctx.tree.modules.values():
            if not mod.name.startswith(m.name.split(".")[0]):
                continue
            for n in ast.walk(mod.tree):
                if isinstance(n, ast.Call) and isinstance(n.func, ast.Attribute) and n.func.attr in MUTATORS and isinstance(n.func.value, ast.Attribute) and n.func.value.attr == attr:
                    return (False, f"the cached value is shared by everyone who asks for it, and `.{attr}` (which receives it) is mutated at {mod.rel}:{n.lineno}")
                if isinstance(n, (ast.Assign, ast.AugAssign)):
                    for t in (n.targets if isinstance(n, ast.Assign) else [n.target]):
                        if isinstance(t, ast.Subscript) and isinstance(t.value, ast.Attribute) and t.value.attr == attr:
                            return (False, f"the cached value is shared by everyone who asks for it, and `.{attr}` (which receives it) is written at {mod.rel}:{n.lineno}")
    return (True, f"memo table of {holder.qual}: the key {norm(kexpr)} covers every parameter the cached value is computed from, and the shared values are never mutated")


def rule_no_shared_state(ctx, rep, rid: str) -> None:
    rep.rule(rid, "no process-wide mutable state: every module- and class-level binding is a class, function, import, immutable value, singleton, an audited read-only table that nothing mutates, or a memo table of one pure module-level function whose key covers every parameter the cached value depends on; no global statements, function attributes, mutable default arguments or memoising decorators", floor=30)
    # positive control: the classifier must flag a module-level cache
    probe = ast.parse("_REGEX_CACHE = {}\n_PROTO = JSObject()\n").body
    if classify_binding("_REGEX_CACHE", probe[0].value) is None or classify_binding("_PROTO", probe[1].value) is None:
        raise AnalysisError("positive control failed: the shared-state classifier no longer flags a module-level cache")
    n_mod = 0
    for m in ctx.tree.modules.values():
        n_mod += 1
        scopes: List[Tuple[str, List[ast.stmt]]] = [(m.name, m.tree.body)]
        for n in ast.walk(m.tree):
            if isinstance(n, ast.ClassDef):
                scopes.append((f"{m.name}:{n.name}", n.body))
        for sname, body in scopes:
            for s in body:
                items: List[Tuple[str, Optional[ast.AST], int]] = []
                if isinstance(s, ast.Assign):
                    for t in s.targets:
                        if isinstance(t, ast.Name):
                            items.append((t.id, s.value, s.lineno))
                elif isinstance(s, ast.AnnAssign) and isinstance(s.target, ast.Name):
                    items.append((s.target.id, s.value, s.lineno))
                for name, value, line in items:
                    key = f"{sname}.{name}"
                    why = classify_binding(name, value)
                    if why is None:
                        rep.ok(rid, key)
                        continue
                    if name in READONLY_TABLES and isinstance(value, (ast.Dict, ast.List)):
                        muts = _mutation_sites(ctx, name)
                        if muts:
                            rep.bad(rid, key, f"shared table {name} is mutated at {muts[0]}: state leaks between contexts and evals", muts[0])
                        else:
                            rep.ok(rid, key, {"table": name, "mutation_sites": 0})
                        continue
                    if sname == m.name and isinstance(value, (ast.DictComp, ast.ListComp, ast.SetComp)) and _constant_comprehension(value):
                        why_not = _read_only_by_use(ctx, m, name, value)
                        if why_not is None:
                            rep.ok(rid, key, {"constant_table": "computed at import from constants, filled by module-level statements only, then only read"})
                            continue
                    if sname == m.name and isinstance(value, (ast.Dict, ast.List, ast.Set)) and (value.keys if isinstance(value, ast.Dict) else value.elts):
                        why_not = _read_only_by_use(ctx, m, name, value)
                        if why_not is None:
                            rep.ok(rid, key, {"constant_table": "immutable elements, only read (subscript, membership, iteration, .get)"})
                            continue
                    if sname == m.name and isinstance(value, ast.Dict) and not value.keys:
                        mt = memo_table(ctx, m, name)
                        if mt is not None and mt[0]:
                            rep.ok(rid, key, {"memo": mt[1]})
                            continue
                        if mt is not None:
                            rep.bad(rid, key, f"{sname}.{name} is a process-wide memo table whose key does not determine its value: {mt[1]}; the result depends on what other contexts (or earlier evaluations) asked for first", f"{m.rel}:{line}")
                            continue
                    rep.bad(rid, key, f"{sname} binds {name} to a {why} at import time: state shared by every context in the process", f"{m.rel}:{line}")
        for n in ast.walk(m.tree):
            if isinstance(n, ast.Global):
                rep.bad(rid, f"{m.name}:global {','.join(n.names)}", f"`global {', '.join(n.names)}` rebinds module state at run time", f"{m.rel}:{n.lineno}")
            if isinstance(n, (ast.FunctionDef, ast.AsyncFunctionDef, ast.Lambda)):
                a = n.args
                for d in list(a.defaults) + [x for x in a.kw_defaults if x is not None]:
                    if not _immutable_value(d):
                        rep.bad(rid, f"{m.name}:{getattr(n, 'name', 'lambda')}:default", f"mutable default argument {short(d, 30)} is shared by all calls", f"{m.rel}:{n.lineno}")
                for dec in getattr(n, "decorator_list", []):
                    if any(w in norm(dec) for w in ("lru_cache", "functools.cache", "cached_property")) or norm(dec) == "cache":
                        rep.bad(rid, f"{m.name}:{n.name}:memo", f"{norm(dec)} memoises across contexts", f"{m.rel}:{n.lineno}")
            # singleton slots may only be written by their own __new__
            if isinstance(n, ast.Assign):
                for t in n.targets:
                    if isinstance(t, ast.Attribute) and isinstance(t.value, ast.Name) and t.value.id in ("cls",) and t.attr != "_instance":
                        rep.bad(rid, f"{m.name}:cls.{t.attr}", f"class attribute cls.{t.attr} is written at run time", f"{m.rel}:{n.lineno}")
                    # function attributes / class attributes written through the class name
                    if isinstance(t, ast.Attribute) and isinstance(t.value, ast.Name) and (t.value.id in m.functions or t.value.id in m.classes):
                        rep.bad(rid, f"{m.name}:{t.value.id}.{t.attr}", f"attribute {t.value.id}.{t.attr} of a module-level object is written at run time", f"{m.rel}:{n.lineno}")
    rep.analysed["modules_scanned"] = n_mod
    if n_mod < 15:
        raise AnalysisError(f"only {n_mod} modules scanned")


def rule_fresh_vm_pointer_cleared(ctx, rep, rid: str) -> None:
    rep.rule(rid, "Context.eval builds its interpreter locally and clears the current-VM pointer on every way out (normal and exceptional); no other attribute of the context keeps an interpreter", floor=2)
    t = ctx.tree
    ev = t.func("context:Context.eval")
    vmcls = ctx.facts.vm_dispatcher()[0].cls
    ctxcls = ev.cls
    # where the context publishes an interpreter: self.<ptr> = <a VM-typed local or parameter>
    n_pub = 0
    for m in ctxcls.all_methods:
        if isinstance(m.node, ast.Lambda):
            continue
        lt = ctx.cg.local_types(m)
        ann = {a.arg for a in m.node.args.args if a.annotation is not None and norm(a.annotation) == vmcls.name}

        def is_vm(e: ast.AST) -> bool:
            return isinstance(e, ast.Name) and (lt.get(e.id) is vmcls or e.id in ann)

        pubs = [n for n in m.own_nodes() if isinstance(n, ast.Assign) and is_vm(n.value) and any(isinstance(tg, ast.Attribute) and norm(tg.value) == "self" for tg in n.targets)]
        if not pubs:
            continue
        cfg = ctx.facts.cfg(m)
        for a in pubs:
            attr = next(tg.attr for tg in a.targets if isinstance(tg, ast.Attribute) and norm(tg.value) == "self")
            if attr != "_current_vm":
                continue  # reported below as a cached interpreter
            n_pub += 1
            # values that put the pointer back: None, or a local saved from the pointer before it was set
            saved = {x.targets[0].id for x in m.own_nodes() if isinstance(x, ast.Assign) and len(x.targets) == 1 and isinstance(x.targets[0], ast.Name) and norm(x.value) == f"self.{attr}" and x.lineno <= a.lineno and x is not a}
            clear = {n.id for n in cfg.nodes if isinstance(n.ast, ast.Assign) and any(norm(tg) == f"self.{attr}" for tg in n.ast.targets) and ((isinstance(n.ast.value, ast.Constant) and n.ast.value.value is None) or (isinstance(n.ast.value, ast.Name) and n.ast.value.id in saved))}
            an = next((n for n in cfg.nodes if n.ast is a), None)
            if an is None:
                raise AnalysisError(f"{m.qual}: assignment to self.{attr} not found in its flow graph")
            key = f"{m.qual}:{attr}"
            p = cfg.path_avoiding(an.id, lambda n: n.id in (cfg.exit.id, cfg.raise_exit.id), clear, None, start_succ=True)
            if p is not None:
                how = "an exception thrown into the generator at its yield (the body of the with block failed)" if any(isinstance(x, (ast.Yield, ast.YieldFrom)) for n in p if n.ast is not None for x in ast.walk(n.ast)) else "that path"
                rep.bad(rid, key, f"{m.qual} can leave (lines {[n.line for n in p if n.line]}) with self.{attr} still pointing at the finished interpreter ({how}): a later RegExp() or nested eval is judged against the previous eval's clock/stack", f"{m.module.rel}:{a.lineno}")
            else:
                rep.ok(rid, key, {"set_at": a.lineno, "cleared_on_all_exits": sorted(cfg.nodes[c].line for c in clear)})
    if n_pub == 0:
        rep.ok(rid, "Context.eval:no-pointer", {"note": "the context does not publish its interpreter"})
    # no attribute of self holds a VM besides _current_vm
    for m in ctxcls.methods.values():
        lt = ctx.cg.local_types(m)
        for n in m.own_nodes():
            if isinstance(n, ast.Assign) and isinstance(n.value, ast.Name) and lt.get(n.value.id) is vmcls:
                for tg in n.targets:
                    if isinstance(tg, ast.Attribute) and norm(tg.value) == "self" and tg.attr != "_current_vm":
                        rep.bad(rid, f"{m.qual}:self.{tg.attr}", f"{m.qual} stores an interpreter in self.{tg.attr}: interpreter state (stacks, handlers, clock) survives the eval", f"{m.module.rel}:{n.lineno}")
            if isinstance(n, ast.Assign) and isinstance(n.value, ast.Call) and norm(n.value.func) == "VM":
                for tg in n.targets:
                    if isinstance(tg, ast.Attribute) and norm(tg.value) == "self":
                        rep.bad(rid, f"{m.qual}:self.{tg.attr}", f"{m.qual} caches an interpreter on the context (self.{tg.attr})", f"{m.module.rel}:{n.lineno}")
    rep.ok(rid, "Context:no-cached-interpreter")


def rule_nested_globals(ctx, rep, rid: str) -> None:
    rep.rule(rid, "every interpreter built by Context (eval, indirect eval, Function, callback helper) runs on the context's own globals dictionary (by identity, or copy-in/copy-back)", floor=1)
    vmcls = ctx.facts.vm_dispatcher()[0].cls
    for cs in ctx.cg.sites:
        if cs.ext != "class:" + vmcls.qual:
            continue
        f = cs.func
        p = getattr(cs.call, "_parent", None)
        var = p.targets[0].id if isinstance(p, ast.Assign) and isinstance(p.targets[0], ast.Name) else None
        key = f"{f.qual}:VM(...).globals"
        loc = f"{f.module.rel}:{cs.line}"
        if var is None:
            rep.bad(rid, key, "interpreter constructed without being bound to a local", loc)
            continue
        ident = False
        copy_in = copy_back = copy_back_always = False
        for n in f.own_nodes():
            if isinstance(n, ast.Assign) and any(norm(tg) == f"{var}.globals" for tg in n.targets) and norm(n.value).endswith("._globals"):
                ident = True
            if isinstance(n, ast.Call) and norm(n.func) == f"{var}.globals.update" and n.args and norm(n.args[0]).endswith("._globals"):
                copy_in = True
            if isinstance(n, ast.Call) and norm(n.func).endswith("._globals.update") and n.args and norm(n.args[0]) == f"{var}.globals":
                copy_back = True
                # on every way out? (in the finally of a try around the run)
                q, child = getattr(n, "_parent", None), n
                while q is not None and q is not f.node:
                    if isinstance(q, ast.Try) and any(child is b or any(x is child for x in ast.walk(b)) for b in q.finalbody):
                        copy_back_always = True
                    child, q = q, getattr(q, "_parent", None)
        if ident or (copy_in and copy_back and copy_back_always):
            rep.ok(rid, key, {"how": "identity" if ident else "copy-in/copy-back in a finally"})
        elif copy_in and copy_back:
            rep.bad(rid, key, f"the interpreter built in {f.qual} runs on a COPY of the context's globals that is copied back only when the run returns normally: what the script wrote is lost when it throws (and code it runs through eval() writes to the context's table, not to the copy)", loc)
        else:
            rep.bad(rid, key, f"the interpreter built in {f.qual} does not run on the context's globals: definitions made there are lost (or never visible)", loc)


def _deadline_adopters(ctx) -> List[Func]:
    """Interpreter methods that install the RUNNING interpreter's deadline callback on a regex object:
    `<x>.set_poll_callback(self.<factory>())` (or an assignment to its callback attribute) with a deadline factory
    of the same class (sa/rules/limits.deadline_factory)."""
    from .limits import deadline_factory

    vmcls = ctx.facts.vm_dispatcher()[0].cls
    out = []
    for m in vmcls.all_methods:
        for n in m.own_nodes():
            arg = None
            if isinstance(n, ast.Call) and isinstance(n.func, ast.Attribute) and "poll_callback" in n.func.attr and n.args:
                arg = n.args[0]
            if isinstance(n, ast.Assign) and any(isinstance(tg, ast.Attribute) and "poll_callback" in tg.attr for tg in n.targets):
                arg = n.value
            if isinstance(arg, ast.Call) and isinstance(arg.func, ast.Attribute) and norm(arg.func.value) == "self":
                fac = ctx.tree.find_method(vmcls, arg.func.attr)
                if fac is not None and deadline_factory(ctx, fac):
                    out.append(m)
    return list({id(x): x for x in out}.values())


def rule_no_stale_deadline(ctx, rep, rid: str) -> None:
    rep.rule(rid, "a deadline closure handed to an object that outlives the eval (a script-visible RegExp) does not capture the interpreter of the eval that created it -- or every interpreter that runs the object's matcher installs its own deadline on it first", floor=2)
    js = ctx.tree.class_named("JSRegExp")
    adopters = _deadline_adopters(ctx)
    aids = {id(a) for a in adopters}
    # every script-reachable run of a script-held regex goes through an adopter first
    unadopted: List[Tuple[Func, ast.AST]] = []
    n_runs = 0
    if adopters:
        loops = {id(f) for f, _ in ctx.facts.matcher_loops()}
        sr = ctx.facts.script_reachable()
        cache: Dict[int, bool] = {}

        def reaches(fn) -> bool:
            if id(fn) not in cache:
                cache[id(fn)] = any(x in loops for x in ctx.cg.reach([fn]))
            return cache[id(fn)]

        for cs in ctx.cg.sites:
            f = cs.func
            if f.module.name.startswith("regex") or f.cls is js or id(f) not in sr or id(f) in aids:
                continue
            if cs.kind not in ("resolved", "byname"):
                continue
            tg = [x for x in cs.targets if (x.module.name.startswith("regex") or (x.cls is not None and x.cls.name == "JSRegExp")) and x.name != "__init__"]
            if not tg or not any(reaches(x) for x in tg):
                continue
            recv = cs.call.func.value if isinstance(cs.call.func, ast.Attribute) else None
            if not isinstance(recv, ast.Name):
                continue
            # where does the receiver come from?  a fresh engine object built here is bound at construction
            defs = [n for n in f.own_nodes() if isinstance(n, ast.Assign) and any(isinstance(t_, ast.Name) and t_.id == recv.id for t_ in n.targets)]
            origin = recv.id
            hops = 0
            while defs and hops < 3:
                hops += 1
                v = defs[-1].value
                if isinstance(v, ast.Call) and isinstance(v.func, ast.Attribute) and v.func.attr == "_create_vm" and isinstance(v.func.value, ast.Name):
                    origin = v.func.value.id
                    defs = [n for n in f.own_nodes() if isinstance(n, ast.Assign) and any(isinstance(t_, ast.Name) and t_.id == origin for t_ in n.targets)]
                    continue
                break
            n_runs += 1
            ok = False
            defs = [n for n in f.own_nodes() if isinstance(n, ast.Assign) and any(isinstance(t_, ast.Name) and t_.id == origin for t_ in n.targets)]
            script_held = not defs  # a closure variable / parameter: a RegExp object the script holds
            for d in defs:
                v = d.value
                if isinstance(v, ast.Call):
                    c2 = ctx.cg.site_of_call.get(id(v))
                    if c2 and any(id(t_) in aids for t_ in c2.targets):
                        ok = True  # obtained through the adopter
                    elif c2 and c2.ext and c2.ext.startswith("class:"):
                        ok = True  # constructed here with this interpreter's callback (C01-R4 checks the argument)
                    else:
                        script_held = True
                else:
                    script_held = True  # e.g. pattern._internal
            if not ok and script_held:
                # an adopter call on the same object earlier in the function?
                for n in f.own_nodes():
                    if isinstance(n, ast.Call) and n.lineno <= cs.call.lineno:
                        c2 = ctx.cg.site_of_call.get(id(n))
                        if c2 and any(id(t_) in aids for t_ in c2.targets) and n.args and norm(n.args[0]) == origin:
                            ok = True
            if not ok:
                unadopted.append((f, cs.call))
    for cs in ctx.cg.sites:
        if cs.ext != "class:" + js.qual:
            continue
        f = cs.func
        key = f"{f.qual}:JSRegExp deadline"
        loc = f"{f.module.rel}:{cs.line}"
        arg = cs.call.args[2] if len(cs.call.args) > 2 else None
        if not isinstance(arg, ast.Name):
            rep.ok(rid, key)
            continue
        stale = None
        for n in f.own_nodes():
            if isinstance(n, ast.Assign) and any(isinstance(tg, ast.Name) and tg.id == arg.id for tg in n.targets):
                v = n.value
                fn = f.children.get(v.id) if isinstance(v, ast.Name) else (ctx.tree.func_of_node.get(id(v)) if isinstance(v, ast.Lambda) else None)
                if fn is None and isinstance(v, ast.Call):
                    # a deadline factory of an interpreter: its closure captures that interpreter
                    c2 = ctx.cg.site_of_call.get(id(v))
                    if c2 and c2.targets:
                        stale = (c2.targets[0].name, norm(v.func.value) if isinstance(v.func, ast.Attribute) else "?")
                    continue
                if fn is None:
                    continue
                for x in fn.own_nodes():
                    if isinstance(x, ast.Attribute) and x.attr == "start_time":
                        base = norm(x.value)
                        if "_current_vm" not in base:
                            stale = (fn.name, base)
        if stale and adopters and not unadopted:
            rep.ok(rid, key, {"captures": stale[1], "but": f"every one of the {n_runs} script-reachable matcher runs re-installs the running interpreter's deadline first ({', '.join(a.name for a in adopters)})"})
        elif stale:
            extra = ""
            if adopters and unadopted:
                uf, uc = unadopted[0]
                extra = f"; {uf.qual} runs the matcher ({short(uc, 40)}) without installing its own deadline first"
            rep.bad(rid, key, f"the deadline closure {stale[0]} reads {stale[1]}.start_time of the interpreter that was running when the regex was created; a regex kept in a global and used by a later eval is judged against the old eval's deadline (spurious TimeLimitError, or no limit){extra}", loc)
        else:
            rep.ok(rid, key)
    if adopters:
        for uf, uc in unadopted:
            rep.bad(rid, f"{uf.qual}:{short(uc, 40)}:unadopted", f"{uf.qual} runs the matcher of a RegExp the script holds ({short(uc, 40)}) without installing the running interpreter's deadline on it first: the regex is measured against the eval that created it", f"{uf.module.rel}:{uc.lineno}")
        if not unadopted:
            rep.ok(rid, "matcher-runs:adopted", {"runs": n_runs})


# ------------------------------------------------------------------------ C15
def _only_deadline_uses(ctx, f: Func, var: str, depth: int) -> bool:
    """Every use of local/parameter `var` in f (and its closures) is: the value assigned to a `.start_time`, an
    operand of an ordered comparison reached through +/- only, a test against None, or an argument of a repository
    function whose parameter is used in the same ways (two levels)."""
    if depth > 2:
        return False
    scopes = [f] + [h for h in f.children.values() if not isinstance(h.node, ast.Lambda) and var not in h.params()]
    for h in scopes:
        for u in h.own_nodes():
            if not (isinstance(u, ast.Name) and u.id == var and isinstance(u.ctx, ast.Load)):
                continue
            p = getattr(u, "_parent", None)
            child = u
            while isinstance(p, ast.BinOp) and isinstance(p.op, (ast.Add, ast.Sub)):
                p, child = getattr(p, "_parent", None), p
            if isinstance(p, ast.Compare) and (all(isinstance(o, (ast.Gt, ast.GtE, ast.Lt, ast.LtE)) for o in p.ops) or all(isinstance(o, (ast.Is, ast.IsNot)) for o in p.ops)):
                continue
            if isinstance(p, ast.Assign) and p.value is child and all(norm(t).endswith(".start_time") or "deadline" in norm(t).split(".")[-1] for t in p.targets):
                continue
            if isinstance(p, ast.IfExp) and p.test is not child:
                # `x.start_time if x is not None else None`-style selections are followed one level up
                pp = getattr(p, "_parent", None)
                if isinstance(pp, ast.Call) and p in pp.args:
                    p, child = pp, p
                elif isinstance(pp, ast.Assign) and pp.value is p and all(norm(t).endswith(".start_time") or "deadline" in norm(t).split(".")[-1] for t in pp.targets):
                    continue  # `self.start_time = clock() if started is None else started`
            if isinstance(p, ast.Call) and child in p.args:
                cs = ctx.cg.site_of_call.get(id(p))
                if cs is not None and cs.kind == "resolved" and cs.targets:
                    from ..util import bind_args

                    ok = True
                    for tg in cs.targets:
                        if isinstance(tg.node, ast.Lambda):
                            ok = False
                            break
                        pn = next((k for k, a in bind_args(p, tg).items() if a is child), None)
                        if pn is None or not _only_deadline_uses(ctx, tg, pn, depth + 1):
                            ok = False
                    if ok:
                        continue
            return False
    return True


def _assigned_local(call: ast.AST) -> Optional[str]:
    """The local a clock reading is stored in: `t = clock()`, or `t = other if cond else clock()` (either arm)."""
    child, p = call, getattr(call, "_parent", None)
    while isinstance(p, ast.IfExp) and p.test is not child:
        child, p = p, getattr(p, "_parent", None)
    if isinstance(p, ast.Assign) and p.value is child and len(p.targets) == 1 and isinstance(p.targets[0], ast.Name):
        return p.targets[0].id
    return None


def rule_clock_rng_allowlist(ctx, rep, rid: str) -> None:
    rep.rule(rid, "the clock and the random generator are read only by Date.now, Math.random, the limit check, the functions that stamp the deadline and the deadline closures", floor=4)
    lc = ctx.facts.limit_check()
    natives = {id(v[0]): v[1] for v in ctx.cg.natives.values()}
    for f in ctx.tree.funcs:
        for n in f.own_nodes():
            if not isinstance(n, ast.Call):
                continue
            fn = norm(n.func)
            head = fn.split(".")[0]
            if head not in ("time", "random", "uuid", "secrets", "datetime") and fn not in ("os.urandom", "os.getpid", "os.times"):
                continue
            if head in ("time", "random", "datetime") and not (f.module.imports.get(head, ("", ""))[0].startswith("ext:") or ctx.cg._fn_level_import(head, f)):
                continue
            key = f"{f.qual}:{fn}"
            loc = f"{f.module.rel}:{n.lineno}"
            why = None
            if f is lc:
                why = "limit check"
            elif natives.get(id(f)) in ("now", "random"):
                why = f"native {natives[id(f)]}"
            elif any(isinstance(x, ast.Assign) and any(norm(t).endswith(".start_time") for t in x.targets) and fn in norm(x.value) for x in f.own_nodes()):
                why = "stamps the evaluation's start time"
            elif _assigned_local(n) is not None and _only_deadline_uses(ctx, f, _assigned_local(n), 0):
                why = "start of the evaluation kept in a local that only becomes a start_time or the operand of a deadline comparison"
            else:
                rets = [x.value for x in f.own_nodes() if isinstance(x, ast.Return) and x.value is not None]
                if isinstance(f.node, ast.Lambda):
                    rets = [f.node.body]
                if rets and all(elapsed_compare(r) for r in rets):
                    why = "deadline closure"
                elif id(f) not in natives and head == "time":
                    # the reading is consumed by an ordered comparison (through +/- only) and nothing else: only one
                    # bit "deadline passed" leaves the expression, and the function is not callable from script
                    q, child = getattr(n, "_parent", None), n
                    while isinstance(q, ast.BinOp) and isinstance(q.op, (ast.Add, ast.Sub)):
                        q, child = getattr(q, "_parent", None), q
                    if isinstance(q, ast.Compare) and all(isinstance(o, (ast.Gt, ast.GtE, ast.Lt, ast.LtE)) for o in q.ops):
                        why = "deadline predicate (clock value only compared)"
            if why:
                rep.ok(rid, key, {"role": why})
            else:
                rep.bad(rid, key, f"{f.qual} reads {fn}(): wall-clock or random data can reach script-visible values outside Date.now/Math.random", loc)


def rule_no_identity_in_messages(ctx, rep, rid: str) -> None:
    rep.rule(rid, "no id()/hash()/default object repr reaches a script-visible string: error messages format script values through to_string/js_typeof, never through the host repr", floor=3)
    # positive control
    probe = ast.parse("def f(self):\n    callee = self.stack.pop()\n    raise JSTypeError(f'{callee} is not a function')\n")
    if not _raw_value_placeholders(probe.body[0]):
        raise AnalysisError("positive control failed: raw placeholder detector")
    n = 0
    for f in ctx.tree.funcs:
        if f.module.name not in ("vm", "context", "values"):
            continue
        for x in f.own_nodes():
            if isinstance(x, ast.Call) and norm(x.func) in ("id", "hash") and x.args:
                par = getattr(x, "_parent", None)
                # identity used only as a membership key of a visited set is not observable
                if isinstance(par, ast.Compare) and any(isinstance(o, (ast.In, ast.NotIn)) for o in par.ops):
                    continue
                if isinstance(par, ast.Call) and isinstance(par.func, ast.Attribute) and par.func.attr in ("add", "discard", "remove") and x in par.args:
                    continue
                if isinstance(par, (ast.Set, ast.BinOp)) and any(isinstance(q, (ast.Compare, ast.Call, ast.keyword)) for q in [getattr(par, "_parent", None)]):
                    continue
                if isinstance(par, ast.Assign) and isinstance(par.targets[0], ast.Name):
                    # `key = id(v)`: every later use of the local must be membership / add / discard
                    nm = par.targets[0].id
                    uses = [u for u in f.own_nodes() if isinstance(u, ast.Name) and u.id == nm and isinstance(u.ctx, ast.Load)]
                    def _ok(u):
                        q = getattr(u, "_parent", None)
                        if isinstance(q, ast.Subscript) and q.slice is u:
                            return True  # a dictionary key (d[key] = v, del d[key], d[key]): which slot, never a value a script sees
                        return (isinstance(q, ast.Compare) and any(isinstance(o, (ast.In, ast.NotIn)) for o in q.ops)) or (isinstance(q, ast.Call) and isinstance(q.func, ast.Attribute) and q.func.attr in ("add", "discard", "remove", "append", "pop"))
                    if uses and all(_ok(u) for u in uses):
                        continue
                rep.bad(rid, f"{f.qual}:{norm(x.func)}()", f"{f.qual} calls {norm(x.func)}(): address/hash-seed dependent value", f"{f.module.rel}:{x.lineno}")
            if isinstance(x, ast.Attribute) and x.attr == "__repr__" and norm(x.value) == "object":
                rep.bad(rid, f"{f.qual}:object.__repr__", "default object repr contains an address", f"{f.module.rel}:{x.lineno}")
        if _only_host_library_callback(ctx, f):
            continue  # e.g. json.loads(parse_constant=fn): the host library supplies the arguments, not the script
        for name, line, raise_txt in _raw_value_placeholders(f.node, f):
            n += 1
            rep.bad(rid, f"{f.qual}:{{{name}}}", f"{f.qual} formats the script value `{name}` with the host's str()/repr() in a message ({raise_txt}): host callables and internal objects print as '<bound method … at 0x7f…>', an address that changes from run to run", f"{f.module.rel}:{line}")
        rep.ok(rid, f"{f.qual}:scanned")


def _only_host_library_callback(ctx, f: Func) -> bool:
    """f is a closure whose every use is as an argument of a call into an external (host library) function."""
    if f.parent is None or isinstance(f.node, ast.Lambda):
        return False
    scope = [f.parent]
    for g in ctx.tree.funcs:
        h = g.parent
        while h is not None:
            if h is f.parent and g is not f:
                scope.append(g)
                break
            h = h.parent
    uses = [n for g in scope for n in g.own_nodes() if isinstance(n, ast.Name) and n.id == f.name and isinstance(n.ctx, ast.Load)]
    if not uses:
        return False
    for u in uses:
        p = getattr(u, "_parent", None)
        if isinstance(p, ast.keyword):
            p = getattr(p, "_parent", None)
        if not isinstance(p, ast.Call) or u is p.func:
            return False
        cs = ctx.cg.site_of_call.get(id(p))
        if cs is None or cs.kind != "external":
            return False
    return True


def _raw_value_placeholders(fn_node: ast.AST, f: Optional[Func] = None) -> List[Tuple[str, int, str]]:
    """f-string placeholders in raise messages whose expression is a bare local holding a script value."""
    out = []
    nodes = list(f.own_nodes()) if f is not None else list(ast.walk(fn_node))
    params = set()
    if isinstance(fn_node, (ast.FunctionDef, ast.Lambda)):
        a = fn_node.args
        for x in a.posonlyargs + a.args + a.kwonlyargs:
            ann = norm(x.annotation) if getattr(x, "annotation", None) is not None else ""
            if x.arg not in ("self",) and (ann in ("", "JSValue", "Any")):
                params.add(x.arg)
    popped = set()
    strs = set()
    for n in nodes:
        if isinstance(n, ast.Assign) and isinstance(n.targets[0], ast.Name):
            v = norm(n.value)
            if "self.stack.pop()" in v:
                popped.add(n.targets[0].id)
            if v.startswith(("to_string(", "str(", "js_typeof(", "f'", 'f"')) or isinstance(n.value, ast.Constant):
                strs.add(n.targets[0].id)
    for n in nodes:
        if isinstance(n, ast.Raise) and n.exc is not None:
            for fv in ast.walk(n.exc):
                if isinstance(fv, ast.FormattedValue) and isinstance(fv.value, ast.Name):
                    nm = fv.value.id
                    if nm in strs:
                        continue
                    if nm in popped or nm in params:
                        g = [norm(t) for t, pol in guards_of(n, fn_node)]
                        if any(f"{nm} is UNDEFINED" in x or f"{nm} is NULL" in x for x in g):
                            continue
                        out.append((nm, n.lineno, short(n.exc, 70)))
    return out


# ---- interpreter-bound closures do not outlive the interpreter -----------------------------------------
def rule_no_vm_bound_values_on_objects(ctx, rep, rid: str) -> None:
    """The method closures the interpreter hands out for arrays, strings, numbers ... capture the interpreter that made
    them (`vm = self`) and run callbacks on it.  An interpreter lives for one eval; script objects live as long as the
    context's globals.  Storing such a closure on a script object (a per-object method cache, say) lets a later eval
    run callbacks on a finished interpreter: its clock, its stacks, its handler records."""
    rep.rule(rid, "a value bound to one interpreter (the result of a method-table factory of the interpreter class) is only returned, pushed on that interpreter's own stack or kept in that interpreter's own attributes, never stored in an attribute or dictionary of a script object", floor=1)
    vmcls = ctx.facts.vm_dispatcher()[0].cls
    producers = {m.name for m in vmcls.all_methods if m.name.startswith("_make_") and m.name.endswith("_method")}
    # by shape as well: a method whose nested functions use the interpreter (self, or a local alias of it) and that
    # returns one of them, a table of them, or what another such method returns
    grew = True
    while grew:
        grew = False
        for m in vmcls.all_methods:
            if isinstance(m.node, ast.Lambda) or m.name in producers or not m.children:
                if isinstance(m.node, ast.Lambda) or m.name in producers:
                    continue
            aliases = {"self"} | {t.id for a in m.own_nodes() if isinstance(a, ast.Assign) and isinstance(a.value, ast.Name) and a.value.id == "self" for t in a.targets if isinstance(t, ast.Name)}
            bound_children = {g.name for g in m.children.values() if not isinstance(g.node, ast.Lambda) and any(isinstance(x, ast.Name) and x.id in aliases for x in ast.walk(g.node))}
            tables = {t.id for a in m.own_nodes() if isinstance(a, ast.Assign) and isinstance(a.value, ast.Dict) and any(isinstance(v, ast.Name) and v.id in bound_children for v in a.value.values) for t in a.targets if isinstance(t, ast.Name)}
            for r in m.own_nodes():
                if not (isinstance(r, ast.Return) and r.value is not None):
                    continue
                v = r.value
                hit = (isinstance(v, ast.Name) and v.id in tables) or (isinstance(v, ast.Call) and isinstance(v.func, ast.Attribute) and v.func.attr == "get" and isinstance(v.func.value, ast.Name) and v.func.value.id in tables) or any(isinstance(x, ast.Call) and isinstance(x.func, ast.Attribute) and norm(x.func.value) == "self" and x.func.attr in producers for x in ast.walk(v))
                if hit and m.name not in producers:
                    producers.add(m.name)
                    grew = True
    if len(producers) < 3:
        raise AnalysisError(f"method-table factories of the interpreter not found ({sorted(producers)})")

    def is_bound_value(e: ast.AST) -> bool:
        return any(isinstance(x, ast.Call) and isinstance(x.func, ast.Attribute) and x.func.attr in producers for x in ast.walk(e))

    n = 0
    for f in ctx.tree.funcs:
        if isinstance(f.node, ast.Lambda) or f.module.name not in ("vm", "values", "context"):
            continue
        bound_locals = {t.id for a in f.own_nodes() if isinstance(a, ast.Assign) and is_bound_value(a.value) for t in a.targets if isinstance(t, ast.Name)}
        for a in f.own_nodes():
            if not isinstance(a, ast.Assign):
                continue
            if not (is_bound_value(a.value) or (isinstance(a.value, ast.Name) and a.value.id in bound_locals)):
                continue
            for t in a.targets:
                tt = t
                while isinstance(tt, ast.Tuple):
                    tt = tt.elts[0]
                if isinstance(tt, ast.Name):
                    continue  # a local
                n += 1
                key = f"{f.qual}:{short(t, 30)} = {short(a.value, 30)}"
                root = tt
                while isinstance(root, (ast.Attribute, ast.Subscript)):
                    root = root.value
                holder = None
                if isinstance(root, ast.Name):
                    if root.id == "self" and f.cls is vmcls:
                        rep.ok(rid, key, {"kept_on": "the interpreter itself"})
                        continue
                    # a local alias of some object's attribute?
                    defs = [d.value for d in f.own_nodes() if isinstance(d, ast.Assign) and any(isinstance(x, ast.Name) and x.id == root.id for x in d.targets)]
                    # chained assignment `bound = obj._cache = {}` binds the local to the attribute as well
                    chained = [d for d in f.own_nodes() if isinstance(d, ast.Assign) and len(d.targets) > 1 and any(isinstance(x, ast.Name) and x.id == root.id for x in d.targets) and any(isinstance(x, ast.Attribute) for x in d.targets)]
                    if any(isinstance(d, ast.Attribute) and norm(d.value) != "self" for d in defs) or chained:
                        holder = next((norm(d) for d in defs if isinstance(d, ast.Attribute)), None) or norm(next(x for x in chained[0].targets if isinstance(x, ast.Attribute)))
                    elif isinstance(tt, ast.Attribute) or root.id in f.params():
                        holder = root.id
                if holder is None:
                    rep.ok(rid, key, {"note": "a local container"})
                else:
                    rep.bad(rid, key, f"{f.qual} stores an interpreter-bound method ({short(a.value, 40)}) in {holder}: the object outlives the eval, so a later eval calling the cached method runs its callbacks on the finished interpreter (its start time, call stack and handler records)", f"{f.module.rel}:{a.lineno}")
    rep.ok(rid, "interpreter-bound-values", {"stores_examined": n, "factories": sorted(producers)})


# ---- the running-interpreter pointer is handed back, not cleared ---------------------------------------------


def rule_running_interpreter_handed_back(ctx, rep, rid: str) -> None:
    """Natives find the evaluation they belong to through the context's pointer to the running interpreter (eval,
    Function and regular expressions take its deadline and host-stack budget).  Context methods are callable from host
    functions, which run while a script is being evaluated: a method that publishes its own interpreter in the
    pointer and CLEARS it when it is done leaves the outer evaluation without its interpreter - whatever it creates
    afterwards starts a clock of its own.  The value the pointer had before is what goes back."""
    rep.rule(rid, "a method of the context that publishes an interpreter in the running-interpreter pointer saves the previous value first and puts THAT back on every way out (never a constant None), and the interpreter it publishes takes the start time of the previous one when there is one", floor=1)
    t = ctx.tree
    ev = t.func("context:Context.eval")
    vmcls = ctx.facts.vm_dispatcher()[0].cls
    ctxcls = ev.cls
    n = 0
    for m in ctxcls.all_methods:
        if isinstance(m.node, ast.Lambda):
            continue
        lt = ctx.cg.local_types(m)
        pubs = [a for a in m.own_nodes() if isinstance(a, ast.Assign) and isinstance(a.value, ast.Name) and lt.get(a.value.id) is vmcls and any(isinstance(tg, ast.Attribute) and norm(tg.value) == "self" for tg in a.targets)]
        for a in pubs:
            attr = next(tg.attr for tg in a.targets if isinstance(tg, ast.Attribute) and norm(tg.value) == "self")
            n += 1
            key = f"{m.qual}:{attr}:handed-back"
            saved = {x.targets[0].id for x in m.own_nodes() if isinstance(x, ast.Assign) and len(x.targets) == 1 and isinstance(x.targets[0], ast.Name) and norm(x.value) == f"self.{attr}" and x.lineno <= a.lineno}
            writes = [x for x in m.own_nodes() if isinstance(x, ast.Assign) and x is not a and any(norm(tg) == f"self.{attr}" for tg in x.targets)]
            consts = [x for x in writes if isinstance(x.value, ast.Constant)]
            backs = [x for x in writes if isinstance(x.value, ast.Name) and x.value.id in saved]
            if consts:
                rep.bad(rid, key, f"{m.qual} publishes its interpreter in self.{attr} (line {a.lineno}) and sets the pointer to {norm(consts[0].value)} when it is done (line {consts[0].lineno}) instead of to the value it had before: called from a host function while a script runs, it leaves the outer evaluation without its interpreter, and the eval()/Function/RegExp that evaluation creates afterwards get a fresh clock and a fresh host-stack budget", f"{m.module.rel}:{consts[0].lineno}")
                continue
            if not backs:
                rep.bad(rid, key, f"{m.qual} publishes its interpreter in self.{attr} (line {a.lineno}) and never puts the previous value back", f"{m.module.rel}:{a.lineno}")
                continue
            # the published interpreter joins the previous one: its start time comes from the saved pointer when there is one
            v = a.value.id
            made_here = any(isinstance(x, ast.Assign) and len(x.targets) == 1 and norm(x.targets[0]) == v and isinstance(x.value, ast.Call) and norm(x.value.func) == vmcls.name for x in m.own_nodes())
            if not made_here:
                # a parameter, or the product of a factory: whoever makes the interpreter gives it its clock (C01-R11)
                rep.ok(rid, key, {"saved_in": sorted(saved), "restored_at": [x.lineno for x in backs], "interpreter": "made elsewhere"})
                continue
            der = _derived_from(m, saved) | saved
            joins = any(isinstance(c, ast.Call) and isinstance(c.func, ast.Attribute) and norm(c.func.value) == v and "clock" in c.func.attr and any(isinstance(y, ast.Name) and y.id in der for y in ast.walk(c)) for c in m.own_nodes()) or any(isinstance(x, ast.Assign) and any(norm(tg) == f"{v}.start_time" for tg in x.targets) and any(isinstance(y, ast.Name) and (y.id in saved or y.id in _derived_from(m, saved)) for y in ast.walk(x.value)) for x in m.own_nodes())
            if joins:
                rep.ok(rid, key, {"saved_in": sorted(saved), "restored_at": [x.lineno for x in backs]})
            else:
                rep.bad(rid, key, f"{m.qual} hands the previous interpreter back but starts a clock of its own for the one it publishes ({v}.start_time does not come from the previous interpreter): an evaluation nested through a host function gets a whole new time limit at every level", f"{m.module.rel}:{a.lineno}")
    if n == 0:
        rep.ok(rid, "no-pointer", {"note": "the context does not publish its interpreter"})


def _derived_from(m, names) -> Set[str]:
    """locals of m whose value mentions one of `names` (one step: `started = clock() if outer is None else outer.start_time`)."""
    out = set()
    for x in m.own_nodes():
        if isinstance(x, ast.Assign) and len(x.targets) == 1 and isinstance(x.targets[0], ast.Name) and any(isinstance(y, ast.Name) and y.id in names for y in ast.walk(x.value)):
            out.add(x.targets[0].id)
    return out


# ---- an interpreter that is used again starts from a clean slate ----------------------------------------------


def rule_reused_interpreter_reset(ctx, rep, rid: str) -> None:
    """When an interpreter object is kept and used for the next evaluation (instead of being built afresh), everything
    an abandoned evaluation can leave behind has to be cleared first.  A time- or memory-limit stop unwinds the host
    stack without running the bytecode that balances the interpreter's own stacks: operands, frames - and the handler
    records of the try blocks that were open.  A stale handler record sends the next evaluation's first uncaught throw
    to an address in the OLD program."""
    rep.rule(rid, "a method of the interpreter that re-initialises it for another run (it resets several of the fields the constructor sets) resets every container the constructor creates, except those the context fills in itself (globals) and those whose every push is undone in a finally", floor=1)
    vmcls = ctx.facts.vm_dispatcher()[0].cls
    init = ctx.tree.find_method(vmcls, "__init__")
    if init is None:
        raise AnalysisError(f"{rid}: interpreter constructor not found")
    containers: Dict[str, int] = {}
    scalars: Set[str] = set()
    for a in init.own_nodes():
        tg = a.targets[0] if isinstance(a, ast.Assign) and len(a.targets) == 1 else (a.target if isinstance(a, ast.AnnAssign) else None)
        v = getattr(a, "value", None)
        if isinstance(tg, ast.Attribute) and norm(tg.value) == "self" and v is not None:
            if isinstance(v, (ast.List, ast.Dict, ast.Set)) or (isinstance(v, ast.Call) and norm(v.func) in ("list", "dict", "set", "deque", "collections.deque")):
                containers[tg.attr] = a.lineno
            else:
                scalars.add(tg.attr)
    # filled in by the context: vm.<attr> = ... in the context module
    given = {t.attr for f in ctx.tree.funcs if f.module.name == "context" and not isinstance(f.node, ast.Lambda) for a in f.own_nodes() if isinstance(a, ast.Assign) for t in a.targets if isinstance(t, ast.Attribute) and not norm(t.value).startswith("self")}
    # balanced by construction: every append is followed by a try whose finally pops it
    balanced: Set[str] = set()
    for attr in containers:
        pushes = []
        okc = True
        for m in ctx.tree.funcs:
            if isinstance(m.node, ast.Lambda) or m.module is not init.module:
                continue
            for st in m.own_nodes():
                if isinstance(st, ast.Expr) and isinstance(st.value, ast.Call) and isinstance(st.value.func, ast.Attribute) and st.value.func.attr in ("append", "add") and isinstance(st.value.func.value, ast.Attribute) and st.value.func.value.attr == attr:
                    pushes.append(st)
                    par = getattr(st, "_parent", None)
                    nxt = None
                    for field in ("body", "orelse", "finalbody"):
                        blk = getattr(par, field, None)
                        if isinstance(blk, list) and st in blk:
                            i = blk.index(st)
                            nxt = blk[i + 1] if i + 1 < len(blk) else None
                    if not (isinstance(nxt, ast.Try) and any(isinstance(c, ast.Call) and isinstance(c.func, ast.Attribute) and c.func.attr in ("pop", "remove", "discard") and isinstance(c.func.value, ast.Attribute) and c.func.value.attr == attr for b in nxt.finalbody for c in ast.walk(b))):
                        okc = False
        if pushes and okc:
            balanced.add(attr)
    n = 0
    for m in vmcls.all_methods:
        if isinstance(m.node, ast.Lambda) or m.name == "__init__":
            continue
        reset: Set[str] = set()
        for st in m.body():
            if isinstance(st, ast.Assign):
                for t in st.targets:
                    if isinstance(t, ast.Attribute) and norm(t.value) == "self":
                        reset.add(t.attr)
            if isinstance(st, ast.Delete):
                for t in st.targets:
                    if isinstance(t, ast.Subscript) and isinstance(t.value, ast.Attribute) and norm(t.value.value) == "self":
                        reset.add(t.value.attr)
            if isinstance(st, ast.Expr) and isinstance(st.value, ast.Call) and isinstance(st.value.func, ast.Attribute) and st.value.func.attr == "clear" and isinstance(st.value.func.value, ast.Attribute) and norm(st.value.func.value.value) == "self":
                reset.add(st.value.func.value.attr)
        touched = reset & (set(containers) | scalars)
        if len(touched) < 3 or not (reset & set(containers)):
            continue
        n += 1
        key = f"{m.qual}:re-initialises"
        missing = sorted(a for a in containers if a not in reset and a not in given and a not in balanced)
        if missing:
            rep.bad(rid, key, f"{m.qual} prepares the interpreter for another run (it resets {sorted(touched)}) but leaves {missing} as the previous run left them: a run that was stopped by the time or memory limit inside a try block leaves its handler records behind, and the next run's first uncaught throw jumps to a catch address of the OLD program (eval returns the error object, or resumes in the middle of the new program)", m.loc)
        else:
            rep.ok(rid, key, {"resets": sorted(reset & set(containers)), "given_by_context": sorted(given & set(containers)), "balanced_in_finally": sorted(balanced)})
    if n == 0:
        rep.ok(rid, "no-reuse", {"note": "no method re-initialises an interpreter: every evaluation builds its own", "containers": sorted(containers)})


def reinitialisers(ctx) -> Set[int]:
    """ids of interpreter methods (other than the constructor) whose top-level statements reset at least three of the
    fields the constructor sets, a container among them: they stand for construction when an interpreter is used again."""
    got = ctx.__dict__.get("_reinitialisers")
    if got is not None:
        return got
    vmcls = ctx.facts.vm_dispatcher()[0].cls
    init = ctx.tree.find_method(vmcls, "__init__")
    fields: Set[str] = set()
    containers: Set[str] = set()
    for a in (init.own_nodes() if init is not None else []):
        tg = a.targets[0] if isinstance(a, ast.Assign) and len(a.targets) == 1 else (a.target if isinstance(a, ast.AnnAssign) else None)
        v = getattr(a, "value", None)
        if isinstance(tg, ast.Attribute) and norm(tg.value) == "self" and v is not None:
            fields.add(tg.attr)
            if isinstance(v, (ast.List, ast.Dict, ast.Set)) or (isinstance(v, ast.Call) and norm(v.func) in ("list", "dict", "set")):
                containers.add(tg.attr)
    out: Set[int] = set()
    for m in vmcls.all_methods:
        if isinstance(m.node, ast.Lambda) or m.name == "__init__":
            continue
        reset: Set[str] = set()
        for st in m.body():
            if isinstance(st, ast.Assign):
                reset |= {t.attr for t in st.targets if isinstance(t, ast.Attribute) and norm(t.value) == "self"}
            if isinstance(st, ast.Delete):
                reset |= {t.value.attr for t in st.targets if isinstance(t, ast.Subscript) and isinstance(t.value, ast.Attribute) and norm(t.value.value) == "self"}
            if isinstance(st, ast.Expr) and isinstance(st.value, ast.Call) and isinstance(st.value.func, ast.Attribute) and st.value.func.attr == "clear" and isinstance(st.value.func.value, ast.Attribute) and norm(st.value.func.value.value) == "self":
                reset.add(st.value.func.value.attr)
        if len(reset & fields) >= 3 and reset & containers:
            out.add(id(m))
    ctx.__dict__["_reinitialisers"] = out
    return out
