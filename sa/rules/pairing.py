"""Save/restore pairing on every exit.

* `rule_contextmanager_cleanup`: a generator decorated with `contextlib.contextmanager` resumes after its `yield`
  only when the body of the `with` statement ends normally; when the body raises, the exception is thrown INTO the
  generator at the `yield`.  State that the manager puts back after the `yield` is therefore put back on every
  way out only if the `yield` sits in a `try` whose `finally` (or an `except` that re-raises after restoring)
  holds the restoring statements.
* `rule_lookahead_restores`: a parser look-ahead helper that saves the token cursor and puts it back must put it
  back on EVERY path that returns to its caller, including the paths through its own exception handlers.
"""

from __future__ import annotations

import ast
from typing import Callable, Dict, List, Optional, Set, Tuple

from ..core import AnalysisError, Func, norm, short


def _is_contextmanager(f: Func) -> bool:
    return not isinstance(f.node, ast.Lambda) and any(norm(d).split(".")[-1] == "contextmanager" for d in f.node.decorator_list)


def _mutations(stmts: List[ast.stmt]) -> List[ast.stmt]:
    """Statements that write state which outlives the generator: attribute / subscript stores, del, and calls of
    mutating methods on attributes (pop, remove, clear, discard, append ...)."""
    out = []
    for s in stmts:
        for n in ast.walk(s):
            if isinstance(n, (ast.Assign, ast.AugAssign, ast.AnnAssign)):
                tg = n.targets if isinstance(n, ast.Assign) else [n.target]
                flat = []
                for t in tg:
                    flat += list(t.elts) if isinstance(t, (ast.Tuple, ast.List)) else [t]
                if any(isinstance(t, (ast.Attribute, ast.Subscript)) for t in flat):
                    out.append(s)
                    break
            if isinstance(n, ast.Delete) and any(isinstance(t, (ast.Attribute, ast.Subscript)) for t in n.targets):
                out.append(s)
                break
            if isinstance(n, ast.Call) and isinstance(n.func, ast.Attribute) and n.func.attr in ("pop", "remove", "clear", "discard", "append", "popitem", "update", "release") and isinstance(n.func.value, (ast.Attribute, ast.Name)):
                out.append(s)
                break
    return out


def unprotected_cleanup(f: Func) -> Optional[Tuple[ast.stmt, ast.AST]]:
    """(cleanup statement, yield) when generator f restores state after a yield that is not protected by
    try/finally; None when every restoring statement also runs when the with-body raises."""
    for y in [n for n in f.own_nodes() if isinstance(n, (ast.Yield, ast.YieldFrom))]:
        # the statement holding the yield, and the chain of blocks around it
        st = y
        while not isinstance(st, ast.stmt):
            st = st._parent
        node = st
        while node is not f.node:
            par = node._parent
            # is `node` in the body of a try that has a finally (or handlers that restore and re-raise)?
            if isinstance(par, ast.Try) and any(node is b for b in par.body):
                if par.finalbody:
                    break  # protected: what follows the try still runs; the finally runs on the exception
            # statements that follow `node` in its block run only on the normal path
            for field in ("body", "orelse", "finalbody"):
                blk = getattr(par, field, None)
                if isinstance(blk, list) and any(node is b for b in blk):
                    rest = blk[[i for i, b in enumerate(blk) if b is node][0] + 1:]
                    muts = _mutations(rest)
                    if muts:
                        return muts[0], y
            if isinstance(par, ast.ExceptHandler):
                par = par._parent
            node = par
    return None


def rule_contextmanager_cleanup(ctx, rep, rid: str, where: Optional[Callable[[Func], bool]] = None, what: str = "") -> None:
    rep.rule(rid, f"every generator-based context manager{what} puts its state back in a `finally` around its `yield`: a cleanup written after the bare `yield` is skipped when the body of the with statement raises, and the saved state is never restored on that exit", floor=1)
    # positive control: the detector must see the classic slip
    ctl = ast.parse("from contextlib import contextmanager\nclass K:\n    @contextmanager\n    def m(self, v):\n        old = self.cur\n        self.cur = v\n        yield v\n        self.cur = old\n")
    for x in ast.walk(ctl):
        for c in ast.iter_child_nodes(x):
            c._parent = x  # type: ignore[attr-defined]
    fn = ctl.body[1].body[0]

    class _F:
        node = fn

        @staticmethod
        def own_nodes():
            return [n for n in ast.walk(fn)]

    if unprotected_cleanup(_F) is None:  # type: ignore[arg-type]
        raise AnalysisError("positive control failed: context-manager cleanup detector")
    n = 0
    for f in ctx.tree.funcs:
        if not _is_contextmanager(f) or (where is not None and not where(f)):
            continue
        n += 1
        key = f"{f.qual}:cleanup-after-yield"
        bad = unprotected_cleanup(f)
        if bad is None:
            rep.ok(rid, key)
        else:
            st, y = bad
            rep.bad(rid, key, f"{f.qual} restores its state with `{short(st, 50)}` after a bare `yield` (line {y.lineno}): when the body of the with statement raises, the exception is thrown into the generator at the yield and this statement never runs, so what was saved before the yield is not put back on that exit", f"{f.module.rel}:{st.lineno}")
    rep.ok(rid, "context-managers", {"generator_context_managers_examined": n})


# ---------------------------------------------------------------------------------------------------
def rule_lookahead_restores(ctx, rep, rid: str, modules: Tuple[str, ...] = ("parser", "lexer", "regex.parser")) -> None:
    """A look-ahead helper moves the token cursor only temporarily."""
    rep.rule(rid, "a parser or scanner method that saves the cursor and puts it back (look-ahead) puts it back on every path that returns to its caller, the paths through its own exception handlers included; otherwise the real parse resumes where the look-ahead stopped and tokens are dropped", floor=2)
    from .frontprogress import _Progress

    n = 0
    for modname in modules:
        mod = ctx.tree.mod(modname)
        for ci in mod.classes.values():
            pg = _Progress(ctx, ci)
            if not pg.cursors:
                continue
            # restore helpers (validated by their call sites) and look-ahead context managers
            restorers: Set[str] = {nm for nm in pg._restorers() if not _is_contextmanager(pg.methods[nm])}
            for m in ci.all_methods:
                if isinstance(m.node, ast.Lambda) or m.name in restorers:
                    continue
                cfg = ctx.facts.cfg(m)

                def is_restore(node) -> bool:
                    a = node.ast
                    if a is None:
                        return False
                    for x in ast.walk(a):
                        if isinstance(x, ast.Assign) and pg._cursor_write(x) and not pg._forward_step(x) and (pg._restore(x, m) or isinstance(x.value, ast.Name)):
                            return True
                        if isinstance(x, ast.Call) and isinstance(x.func, ast.Attribute) and norm(x.func.value) == "self" and x.func.attr in restorers:
                            return True
                    return False

                restores = {nd.id for nd in cfg.nodes if is_restore(nd)}
                managed = [w for w in m.own_nodes() if isinstance(w, ast.With) and any(pg._self_method(it.context_expr) in pg._restorers() for it in w.items)]
                if managed and not restores:
                    # the cursor is put back by a look-ahead context manager, whose own `finally` is a separate obligation
                    n += 1
                    rep.ok(rid, f"{m.qual}:restores-on-every-return", {"through": "context manager " + norm(managed[0].items[0].context_expr)})
                    continue
                if not restores:
                    continue
                if _is_contextmanager(m):
                    n += 1
                    rep.ok(rid, f"{m.qual}:restores-on-every-return", {"note": "a context manager: judged by the cleanup-after-yield rule"})
                    continue
                n += 1
                # from every statement that may move the cursor, each path to the normal exit passes a restore
                movers = [nd for nd in cfg.nodes if nd.ast is not None and nd.id not in restores and any((isinstance(x, ast.Call) and isinstance(x.func, ast.Attribute) and norm(x.func.value) == "self" and x.func.attr in pg.may_consume) or (isinstance(x, ast.Call) and norm(x.func).endswith(".next_token")) or (isinstance(x, (ast.Assign, ast.AugAssign)) and pg._cursor_write(x)) for x in ast.walk(nd.ast))]
                key = f"{m.qual}:restores-on-every-return"
                bad = None
                for mv in movers:
                    p = cfg.path_avoiding(mv.id, lambda nd: nd.id == cfg.exit.id, restores, None, start_succ=True)
                    if p is not None:
                        bad = (mv, p)
                        break
                if bad is None:
                    rep.ok(rid, key, {"movers": len(movers), "restores": len(restores)})
                else:
                    mv, p = bad
                    rep.bad(rid, key, f"{m.qual} moves the cursor at line {mv.line} and can return through lines {[x.line for x in p if x.line][:8]} without putting it back (its other exits restore it): the caller continues parsing from wherever the look-ahead stopped", f"{m.module.rel}:{mv.line}")
    if n < 2:
        # a parser whose look-aheads read from a lexer of their own never moves the parser's cursor backwards:
        # nothing to restore.  That is the case when no method of the front end writes the lexer's position.
        rewinds = [a for modname in ("parser",) for ci in ctx.tree.mod(modname).classes.values() for m in ci.all_methods if not isinstance(m.node, ast.Lambda) for a in m.own_nodes() if isinstance(a, ast.Assign) and any(norm(t).endswith("lexer.pos") or norm(t) == "self.pos" for t in a.targets)]
        if n == 0 and not rewinds:
            rep.ok(rid, "look-ahead:no-rewind", {"note": "no method of the parser writes the lexer position: look-ahead does not move the parser's own cursor"})
            rep.ok(rid, "look-ahead:no-rewind:2", {"note": "see above"})
            return
        raise AnalysisError(f"only {n} look-ahead helper(s) that restore the cursor found")


# ---------------------------------------------------------------------------------------------------
def rule_saved_state_restored(ctx, rep, rid: str, modules: Tuple[str, ...] = ("parser", "lexer", "regex.parser"), floor: int = 0) -> None:
    """A parser mode flag that a method saves into a local, overwrites and puts back (`saved = self.flag;
    self.flag = v; ...; self.flag = saved`) has to be put back on EVERY path that returns normally: an early
    `return` between the overwrite and the restore leaves the mode switched for everything parsed afterwards."""
    rep.rule(rid, "a method of the front end that saves an attribute of the parser in a local, overwrites it and restores it from that local restores it on every path from the overwrite to a normal return (early returns included; a try/finally counts): otherwise the mode leaks into whatever is parsed next", floor=floor)
    # positive control
    src = "class P:\n    def m(self):\n        saved = self.flag\n        self.flag = False\n        x = self.e()\n        if self.t():\n            return x\n        self.flag = saved\n        return x\n"
    n = 0
    for modname in modules:
        mod = ctx.tree.mod(modname)
        for ci in mod.classes.values():
            for m in ci.all_methods:
                if isinstance(m.node, ast.Lambda):
                    continue
                for attr, local, over, restores in _save_overwrite_restore(m):
                    n += 1
                    cfg = ctx.facts.cfg(m)
                    rnodes = {nd.id for nd in cfg.nodes if nd.ast is not None and any(x is r for r in restores for x in ast.walk(nd.ast))}
                    onodes = [nd for nd in cfg.nodes if nd.ast is not None and any(x is over for x in ast.walk(nd.ast))]
                    key = f"{m.qual}:self.{attr} restored from {local}"
                    bad = None
                    for o in onodes:
                        p = cfg.path_avoiding(o.id, lambda nd: nd.id == cfg.exit.id, rnodes, None, start_succ=True)
                        if p is not None:
                            bad = (o, p)
                            break
                    if bad is None:
                        rep.ok(rid, key, {"restores": len(restores)})
                    else:
                        o, p = bad
                        rep.bad(rid, key, f"{m.qual} saves self.{attr} in `{local}`, overwrites it at line {o.line} and can return through lines {[x.line for x in p if x.line][:8]} without putting it back (its other exits restore it): the temporary value stays in force for whatever runs next (a parser mode for the rest of the source, a step budget refilled for the rest of the match)", f"{m.module.rel}:{o.line}")
    ctl = ast.parse(src)
    for x in ast.walk(ctl):
        for c in ast.iter_child_nodes(x):
            c._parent = x  # type: ignore[attr-defined]
    fn = ctl.body[0].body[0]

    class _F:
        node = fn

        @staticmethod
        def own_nodes():
            return list(ast.walk(fn))

    if len(list(_save_overwrite_restore(_F))) != 1:  # type: ignore[arg-type]
        raise AnalysisError("positive control failed: save/overwrite/restore pattern not recognised")
    rep.ok(rid, "saved-state", {"save_overwrite_restore_patterns": n})


def _save_overwrite_restore(m):
    """(attribute, local, overwrite statement, [restore statements]) for each attribute of self that the method
    saves in a local, assigns something else and assigns back from that local."""
    saves: Dict[str, str] = {}
    for a in m.own_nodes():
        if isinstance(a, ast.Assign) and len(a.targets) == 1 and isinstance(a.targets[0], ast.Name) and isinstance(a.value, ast.Attribute) and norm(a.value.value) == "self":
            saves[a.targets[0].id] = a.value.attr
    for local, attr in saves.items():
        writes = [a for a in m.own_nodes() if isinstance(a, ast.Assign) and any(isinstance(t, ast.Attribute) and norm(t.value) == "self" and t.attr == attr for t in a.targets)]
        restores = [a for a in writes if isinstance(a.value, ast.Name) and a.value.id == local]
        overs = [a for a in writes if a not in restores]
        if restores and overs:
            for o in overs:
                yield attr, local, o, restores


# ---- a script-visible slot that a native borrows is handed back on every normal exit ----------------------------
def _slot_of_read(e: ast.AST) -> Optional[Tuple[str, str]]:
    """(object text, slot) for `B.attr` and `B.get("slot")`."""
    if isinstance(e, ast.Attribute) and not isinstance(e.value, ast.Call):
        return norm(e.value), e.attr
    if isinstance(e, ast.Call) and isinstance(e.func, ast.Attribute) and e.func.attr == "get" and len(e.args) == 1 and isinstance(e.args[0], ast.Constant) and isinstance(e.args[0].value, str):
        return norm(e.func.value), e.args[0].value
    return None


def _slot_writes(m) -> List[Tuple[ast.stmt, str, str, ast.AST]]:
    """(statement, object text, slot, value) for `B.attr = v` and `B.set("slot", v)`."""
    out = []
    for a in m.own_nodes():
        if isinstance(a, ast.Assign):
            for t in a.targets:
                if isinstance(t, ast.Attribute):
                    out.append((a, norm(t.value), t.attr, a.value))
        if isinstance(a, ast.Expr) and isinstance(a.value, ast.Call) and isinstance(a.value.func, ast.Attribute) and a.value.func.attr == "set" and len(a.value.args) == 2 and isinstance(a.value.args[0], ast.Constant) and isinstance(a.value.args[0].value, str):
            out.append((a, norm(a.value.func.value), a.value.args[0].value, a.value.args[1]))
    return out


def borrowed_slots(m):
    """(object, slot, local, overwrite statement, [restore statements]): the function saves a slot of an object in a
    local, stores something else in the slot and stores the local back."""
    saves: Dict[str, Tuple[str, str]] = {}
    for a in m.own_nodes():
        if isinstance(a, ast.Assign) and len(a.targets) == 1 and isinstance(a.targets[0], ast.Name):
            sl = _slot_of_read(a.value)
            if sl is not None and sl[0] != "self":
                saves[a.targets[0].id] = sl
    writes = _slot_writes(m)
    for local, (obj, slot) in saves.items():
        mine = [(st, v) for st, o, s_, v in writes if o == obj and s_ == slot]
        restores = [st for st, v in mine if isinstance(v, ast.Name) and v.id == local]
        overs = [st for st, v in mine if not (isinstance(v, ast.Name) and v.id == local)]
        if restores and overs:
            for o in overs:
                yield obj, slot, local, o, restores


def rule_borrowed_slot_restored(ctx, rep, rid: str, where, what: str, floor: int = 0) -> None:
    """A built-in that borrows a script-visible slot of one of its arguments (saves it, sets it for the duration of an
    inner operation, puts it back: String.prototype.search and a RegExp's lastIndex) has to put it back on every
    normal exit; an early return between the overwrite and the restore leaves the argument changed."""
    rep.rule(rid, f"a native of {what} that saves a slot of an object in a local, overwrites the slot and restores it from the local restores it on every path from the overwrite to a normal return (early returns included; a try/finally counts): otherwise the caller's object comes back changed (a RegExp whose lastIndex a failed search reset)", floor=floor)
    ctl = ast.parse("def search(p, s):\n    previous = p.get('lastIndex')\n    p.set('lastIndex', 0)\n    found = p.exec(s)\n    if found is NULL:\n        return -1\n    p.set('lastIndex', previous)\n    return found\n")
    fn = ctl.body[0]

    class _F:
        node = fn

        @staticmethod
        def own_nodes():
            return list(ast.walk(fn))

    if len(list(borrowed_slots(_F))) != 1:  # type: ignore[arg-type]
        raise AnalysisError(f"{rid}: positive control failed (borrowed slot not recognised)")
    n = 0
    for m in ctx.tree.funcs:
        if isinstance(m.node, ast.Lambda) or not where(m):
            continue
        for obj, slot, local, over, restores in borrowed_slots(m):
            n += 1
            cfg = ctx.facts.cfg(m)
            rnodes = {nd.id for nd in cfg.nodes if nd.ast is not None and any(x is r for r in restores for x in ast.walk(nd.ast))}
            onodes = [nd for nd in cfg.nodes if nd.ast is not None and any(x is over for x in ast.walk(nd.ast))]
            key = f"{m.qual}:{obj}.{slot} restored from {local}"
            bad = None
            for o in onodes:
                p = cfg.path_avoiding(o.id, lambda nd: nd.id == cfg.exit.id, rnodes, None, start_succ=True)
                if p is not None and not any(x.kind == "raise" for x in p):
                    bad = (o, p)
                    break
            if bad is None:
                rep.ok(rid, key, {"restores": len(restores)})
            else:
                o, p = bad
                rep.bad(rid, key, f"{m.qual} saves {obj}.{slot} in `{local}`, overwrites it at line {o.line} and can return through lines {[x.line for x in p if x.line][:8]} without putting it back (its other exits restore it): the object the script passed in comes back changed", f"{m.module.rel}:{o.line}")
    rep.ok(rid, "borrowed-slots", {"save_overwrite_restore_patterns": n})


# ---- what a finally block gives back was taken before the try was entered -------------------------------------------
def _counter_text(t: ast.AST) -> str:
    return norm(t)


def _undo_ops(stmts: List[ast.stmt]) -> List[Tuple[str, str, ast.AST]]:
    """('pop', list text, node) / ('dec', counter text, node) for the statements of a finally block (its if-arms included)."""
    out = []
    for st in stmts:
        for x in ast.walk(st):
            if isinstance(x, ast.Expr) and isinstance(x.value, ast.Call) and isinstance(x.value.func, ast.Attribute) and x.value.func.attr == "pop" and not x.value.args and norm(x.value.func.value).startswith("self."):
                out.append(("pop", norm(x.value.func.value), x))
            if isinstance(x, ast.AugAssign) and isinstance(x.op, ast.Sub) and isinstance(x.value, ast.Constant) and x.value.value == 1 and norm(x.target).startswith("self."):
                out.append(("dec", _counter_text(x.target), x))
    return out


def _does(ctx, f: Func, st: ast.stmt, kind: str, what: str, depth: int = 0) -> Optional[Tuple[ast.AST, bool]]:
    """(node, can refuse first) when statement st performs the matching acquisition: an append to the list / an
    increment of the counter, directly or through a method of the same class (which may refuse - raise - before it)."""
    for x in ast.walk(st):
        if kind == "pop" and isinstance(x, ast.Call) and isinstance(x.func, ast.Attribute) and x.func.attr == "append" and norm(x.func.value) == what:
            return x, False
        if kind == "dec" and isinstance(x, ast.AugAssign) and isinstance(x.op, ast.Add) and norm(x.target) == what:
            return x, False
        if isinstance(x, ast.Call) and isinstance(x.func, ast.Attribute) and norm(x.func.value) == "self" and f.cls is not None and depth < 2:
            h = ctx.tree.find_method(f.cls, x.func.attr)
            if h is not None and not isinstance(h.node, ast.Lambda):
                for hs in h.node.body:
                    r = _does(ctx, h, hs, kind, what, depth + 1)
                    if r is not None:
                        refuses = any(isinstance(y, ast.Raise) and y.lineno < r[0].lineno for y in h.own_nodes())
                        return x, refuses or r[1]
    return None


def rule_undo_only_what_was_done(ctx, rep, rid: str, where=lambda f: f.module.name in ("vm", "context", "values")) -> None:
    """try/finally gives back what was taken: a counter is decremented, a marker popped.  The taking belongs BEFORE the
    try: inside it, a refusal (the host-level guard raising MemoryLimitError) runs the finally although nothing was
    taken, and the counter and the marker list drift by one per refusal - the next pop finds an empty list."""
    rep.rule(rid, "where a finally block pops a list of the interpreter or decrements one of its counters, the matching append / increment is made before the try statement is entered (or inside it by a step that cannot refuse): a refused acquisition never runs the release (generator context managers are read as the statements they stand for)", floor=3)
    n = 0
    for f in ctx.tree.funcs:
        if isinstance(f.node, ast.Lambda) or not where(f):
            continue
        for tr in f.own_nodes():
            if not (isinstance(tr, ast.Try) and tr.finalbody):
                continue
            for kind, what, node in _undo_ops(tr.finalbody):
                n += 1
                key = f"{f.qual}:finally {short(node, 40)}@{tr.lineno}"
                inside = None
                for i, st in enumerate(tr.body):
                    r = _does(ctx, f, st, kind, what)
                    if r is not None:
                        inside = (i, st, r)
                        break
                if inside is None:
                    rep.ok(rid, key, {"acquired": "before the try"})
                    continue
                i, st, (x, refuses) = inside
                earlier_can_raise = any(isinstance(y, (ast.Call, ast.Raise)) for s0 in tr.body[:i] for y in ast.walk(s0))
                if refuses or earlier_can_raise:
                    rep.bad(rid, key, f"{f.qual}: the finally block runs `{short(node, 40)}`, but the matching acquisition `{short(x, 40)}` is made inside the try and {'can refuse (raise) before it has taken anything' if refuses else 'comes after steps that can raise'}: when it does, the release runs for something that was never taken - the counter goes below its level, and a later pop finds the list empty (IndexError out of eval in place of the MemoryLimitError)", f"{f.module.rel}:{getattr(x, 'lineno', tr.lineno)}")
                else:
                    rep.ok(rid, key, {"acquired": "first thing inside the try, by a step that cannot refuse"})
    rep.analysed["finally_releases"] = n
    if n < 3:
        raise AnalysisError(f"{rid}: only {n} releasing finally blocks found")
