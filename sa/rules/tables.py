"""E4: agreement of sibling tables (operators, keywords, precedence, method lists)."""

from __future__ import annotations

import ast
from typing import Dict, List, Optional, Set, Tuple

from .. import emit
from ..core import AnalysisError, Func, const_str, norm, opcode_member, short, walk_no_nested


# ------------------------------------------------------------ token vocabulary
def token_values(ctx) -> Dict[str, Set[str]]:
    """TokenType member -> literal spellings, from the lexer's Token(...) constructions,
    its single-character table and the KEYWORDS table."""
    out: Dict[str, Set[str]] = {}
    lex = ctx.tree.mod("lexer")
    for n in ast.walk(lex.tree):
        if isinstance(n, ast.Call) and isinstance(n.func, ast.Name) and n.func.id == "Token" and len(n.args) >= 2:
            tt = opcode_member(n.args[0], ("TokenType",))
            v = const_str(n.args[1])
            if tt and v is not None:
                out.setdefault(tt, set()).add(v)
        if isinstance(n, ast.Dict):
            for k, v in zip(n.keys, n.values):
                tt = opcode_member(v, ("TokenType",)) if v is not None else None
                ks = const_str(k) if k is not None else None
                if tt and ks is not None:
                    out.setdefault(tt, set()).add(ks)
    for k, tt in keywords_table(ctx).items():
        out.setdefault(tt, set()).add(k)
    return out


def keywords_table(ctx) -> Dict[str, str]:
    tok = ctx.tree.mod("tokens")
    for s in tok.tree.body:
        if isinstance(s, ast.Assign) and norm(s.targets[0]) == "KEYWORDS" and isinstance(s.value, ast.Dict):
            return {const_str(k): opcode_member(v, ("TokenType",)) for k, v in zip(s.value.keys, s.value.values)}
    raise AnalysisError("KEYWORDS table not found")


def precedence_table(ctx) -> Dict[str, int]:
    par = ctx.tree.mod("parser")
    for s in par.tree.body:
        if isinstance(s, ast.Assign) and norm(s.targets[0]) == "PRECEDENCE" and isinstance(s.value, ast.Dict):
            return {const_str(k): v.value for k, v in zip(s.value.keys, s.value.values)}
    raise AnalysisError("PRECEDENCE table not found")


def binary_operator_function(ctx) -> Dict[str, str]:
    """TokenType member -> operator string returned by Parser._get_binary_operator."""
    f = ctx.tree.method("Parser", "_get_binary_operator")
    out = {}
    for n in f.own_nodes():
        if isinstance(n, ast.If) and isinstance(n.test, ast.Compare) and "token.type" in norm(n.test.left):
            tt = opcode_member(n.test.comparators[0], ("TokenType",))
            for s in n.body:
                if isinstance(s, ast.Return) and const_str(s.value) is not None and tt:
                    out[tt] = const_str(s.value)
    if len(out) < 20:
        raise AnalysisError("Parser._get_binary_operator: fewer than 20 operators recognised")
    return out


def compiler_op_maps(ctx) -> Dict[str, Dict[str, str]]:
    """class branch -> {operator: opcode}; a branch with several op_map tables (one per target form)
    must give every operator the same opcode in all of them (a disagreement is reported as operator '<op>!')."""
    ea = emit.get(ctx)
    _, chain, _ = ea.node_chain("_compile_expression")
    out: Dict[str, Dict[str, str]] = {}
    for classes, body, line in chain:
        for s in body:
            for n in ast.walk(s):
                if isinstance(n, ast.Assign) and isinstance(n.value, ast.Dict) and norm(n.targets[0]) == "op_map":
                    d = {}
                    for k, v in zip(n.value.keys, n.value.values):
                        if const_str(k) is not None and opcode_member(v):
                            d[const_str(k)] = opcode_member(v)
                    key = "|".join(classes)
                    if key in out:
                        prev = out[key]
                        for op in set(prev) | set(d):
                            if prev.get(op) != d.get(op):
                                prev[op] = f"{prev.get(op)}/{d.get(op)}"  # disagreement between sibling tables
                    else:
                        out[key] = d
    return out


def assignment_token_tuples(ctx) -> List[Tuple[Func, Set[str], int]]:
    """The `_check(TokenType.ASSIGN, TokenType.PLUS_ASSIGN, ...)` tuples in the parser."""
    out = []
    for f in ctx.tree.funcs:
        if f.module.name != "parser":
            continue
        for n in f.own_nodes():
            if isinstance(n, ast.Call) and norm(n.func) in ("self._check", "self._match"):
                mem = {opcode_member(a, ("TokenType",)) for a in n.args}
                if "ASSIGN" in mem and len(mem) > 3:
                    out.append((f, mem, n.lineno))
    return out


# ES2020 binary operator precedence levels (spec data: 13.5-13.13), low to high.
ES_PRECEDENCE_LEVELS = [
    ["||"],
    ["&&"],
    ["|"],
    ["^"],
    ["&"],
    ["==", "!=", "===", "!=="],
    ["<", ">", "<=", ">=", "in", "instanceof"],
    ["<<", ">>", ">>>"],
    ["+", "-"],
    ["*", "/", "%"],
    ["**"],
]


def rule_operator_tables(ctx, rep, rid: str) -> None:
    rep.rule(rid, "operator tables agree end to end: lexer spellings -> parser operators -> PRECEDENCE -> compiler op maps -> handled opcodes; compound assignment maps each op= to the same opcode as the binary operator", floor=8)
    tv = token_values(ctx)
    prec = precedence_table(ctx)
    bop = binary_operator_function(ctx)
    maps = compiler_op_maps(ctx)
    handled = ctx.facts.vm_dispatcher()[1].handled()
    par = ctx.tree.mod("parser")
    comp = ctx.tree.mod("compiler")
    binmap = maps.get("BinaryExpression")
    asgmap = maps.get("AssignmentExpression")
    unmap = maps.get("UnaryExpression")
    if binmap is None or asgmap is None or unmap is None:
        raise AnalysisError("compiler op_map tables not found (anchor vanished)")
    # 1. operators produced by the parser == PRECEDENCE keys
    ops = set(bop.values())
    if ops != set(prec):
        rep.bad(rid, "parser:binary-operators-vs-PRECEDENCE", f"_get_binary_operator yields {sorted(ops - set(prec))} without a precedence / PRECEDENCE lists {sorted(set(prec) - ops)} that are never produced", f"{par.rel}:1")
    else:
        rep.ok(rid, "parser:binary-operators-vs-PRECEDENCE", {"operators": len(ops)})
    # 1b. each operator string is the lexer's spelling of its token type
    for tt, op in sorted(bop.items()):
        if op not in tv.get(tt, set()):
            rep.bad(rid, f"parser:operator-spelling:{tt}", f"_get_binary_operator returns {op!r} for TokenType.{tt}, which the lexer spells {sorted(tv.get(tt, []))}", f"{par.rel}:1")
    rep.ok(rid, "parser:operator-spellings", {"checked": len(bop)})
    # 2. compiler binary map covers every non-logical operator, logical ones are lowered separately
    want = ops - {"&&", "||"}
    if set(binmap) != want:
        rep.bad(rid, "compiler:binary-op_map", f"BinaryExpression op_map misses {sorted(want - set(binmap))} / has unknown {sorted(set(binmap) - want)}: such expressions raise a host NotImplementedError", f"{comp.rel}:1")
    else:
        rep.ok(rid, "compiler:binary-op_map", {"operators": len(binmap)})
    # 3. compound assignment
    asg_tuples = assignment_token_tuples(ctx)
    if len(asg_tuples) < 2:
        raise AnalysisError("assignment-operator token tuples not found in the parser")
    first = asg_tuples[0][1]
    for f, mem, line in asg_tuples:
        if mem != first:
            rep.bad(rid, f"parser:assignment-tokens:{f.name}", f"{f.name} accepts assignment tokens {sorted(mem ^ first)} differently from {asg_tuples[0][0].name}", f"{par.rel}:{line}")
        else:
            rep.ok(rid, f"parser:assignment-tokens:{f.name}")
    spell = set()
    for tt in first:
        spell |= tv.get(tt, set())
    compound = {s[:-1] for s in spell if s != "="}
    if compound != set(asgmap):
        rep.bad(rid, "compiler:compound-op_map", f"compound assignment operators {sorted(compound - set(asgmap))} are accepted by the parser but missing from the compiler's map (host KeyError) / unknown {sorted(set(asgmap) - compound)}", f"{comp.rel}:1")
    else:
        rep.ok(rid, "compiler:compound-op_map", {"operators": sorted(asgmap)})
    # every arithmetic, shift and bitwise binary operator of the language has an `op=` form (ECMAScript
    # AssignmentOperator): one that the lexer/parser do not know is a syntax error for valid source
    has_compound_form = {"+", "-", "*", "/", "%", "**", "<<", ">>", ">>>", "&", "|", "^"}
    missing_forms = sorted((set(binmap) & has_compound_form) - compound)
    if missing_forms:
        rep.bad(rid, "parser:compound-forms", f"the binary operators {missing_forms} are implemented but their compound assignments ({', '.join(m + '=' for m in missing_forms)}) are not tokens the parser accepts: `a {missing_forms[0]}= 2` is rejected as a syntax error", f"{par.rel}:{asg_tuples[0][2]}")
    else:
        rep.ok(rid, "parser:compound-forms", {"operators": sorted(set(binmap) & has_compound_form)})
    for op, oc in sorted(asgmap.items()):
        if binmap.get(op) != oc:
            rep.bad(rid, f"compiler:compound:{op}=", f"`{op}=` is lowered to {oc} but binary `{op}` to {binmap.get(op)}", f"{comp.rel}:1")
        else:
            rep.ok(rid, f"compiler:compound:{op}=")
    # 4. unary operators
    un_f = ctx.tree.method("Parser", "_parse_unary_expression")
    un_tokens: Set[str] = set()
    for n in un_f.own_nodes():
        if isinstance(n, ast.Call) and norm(n.func) == "self._check":
            mem = {opcode_member(a, ("TokenType",)) for a in n.args}
            if "TYPEOF" in mem or "MINUS" in mem:
                un_tokens = mem
    un_spell = set()
    for tt in un_tokens:
        un_spell |= tv.get(tt, set())
    ea = emit.get(ctx)
    _, chain, _ = ea.node_chain("_compile_expression")
    special = set()
    for classes, body, line in chain:
        if "UnaryExpression" in classes:
            for n in ast.walk(ast.Module(body=body, type_ignores=[])):
                if isinstance(n, ast.Compare) and norm(n.left) == "node.operator" and isinstance(n.ops[0], ast.Eq) and const_str(n.comparators[0]):
                    special.add(const_str(n.comparators[0]))
    covered = special | set(unmap)
    if not un_spell:
        raise AnalysisError("unary operator token set not found in the parser")
    if un_spell - covered:
        rep.bad(rid, "compiler:unary-operators", f"unary operators {sorted(un_spell - covered)} are parsed but have no lowering (host NotImplementedError)", f"{comp.rel}:1")
    else:
        rep.ok(rid, "compiler:unary-operators", {"operators": sorted(un_spell)})
    # 5. every opcode named by a map has a handler
    for name, mp in maps.items():
        miss = sorted(set(mp.values()) - set(handled))
        if miss:
            rep.bad(rid, f"compiler:{name}:unhandled", f"{name} op_map names opcodes without a dispatcher branch: {miss}", f"{comp.rel}:1")
        else:
            rep.ok(rid, f"compiler:{name}:handled")


def rule_precedence(ctx, rep, rid: str) -> None:
    rep.rule(rid, "PRECEDENCE is order-isomorphic to ECMAScript's binary-operator levels, and both precedence-climbing loops recurse with `precedence` for ** (right-assoc.) and `precedence + 1` otherwise", floor=3)
    prec = precedence_table(ctx)
    par = ctx.tree.mod("parser")
    spec = {}
    for lvl, ops in enumerate(ES_PRECEDENCE_LEVELS):
        for o in ops:
            spec[o] = lvl
    probs = []
    ops = sorted(set(prec) & set(spec))
    for a in ops:
        for b in ops:
            if (spec[a] < spec[b]) != (prec[a] < prec[b]) or (spec[a] == spec[b]) != (prec[a] == prec[b]):
                probs.append((a, b))
    if set(prec) - set(spec):
        rep.bad(rid, "PRECEDENCE:unknown-operators", f"operators without an ECMAScript precedence level: {sorted(set(prec) - set(spec))}", f"{par.rel}:1")
    if probs:
        a, b = probs[0]
        rep.bad(rid, "PRECEDENCE:order", f"PRECEDENCE orders {a!r} ({prec[a]}) and {b!r} ({prec[b]}) differently from ECMAScript (levels {spec[a]} and {spec[b]}); {len(probs)} operator pairs affected", f"{par.rel}:1")
    else:
        rep.ok(rid, "PRECEDENCE:order", {"operators": len(ops), "pairs_compared": len(ops) ** 2})
    for fname in ("_parse_binary_expression", "_continue_binary_expression"):
        f = ctx.tree.method("Parser", fname)
        okr = False
        detail = ""

        def first_arg(stmts):
            for s_ in stmts:
                for c in ast.walk(s_):
                    if isinstance(c, ast.Call) and isinstance(c.func, ast.Attribute) and c.func.attr.endswith("_binary_expression") and c.args:
                        return norm(c.args[0]).replace(" ", "")
            return None

        def is_pow_test(t):
            return isinstance(t, ast.Compare) and len(t.ops) == 1 and isinstance(t.ops[0], ast.Eq) and {norm(t.left), norm(t.comparators[0])} == {"op", "'**'"}

        for n in f.own_nodes():
            if isinstance(n, ast.If) and is_pow_test(n.test):
                a1, a2 = first_arg(n.body), first_arg(n.orelse)
                okr = a1 == "precedence" and a2 == "precedence+1"
                detail = f"{a1} / {a2}"
            if isinstance(n, ast.IfExp) and is_pow_test(n.test):
                a1, a2 = norm(n.body).replace(" ", ""), norm(n.orelse).replace(" ", "")
                okr = a1 == "precedence" and a2 == "precedence+1"
                detail = f"{a1} / {a2}"
        key = f"{fname}:associativity"
        if okr:
            rep.ok(rid, key, {"recursion": detail})
        else:
            rep.bad(rid, key, f"{fname} does not recurse with `precedence` for ** and `precedence + 1` for the other operators ({detail or 'pattern not found'}): associativity differs from ECMAScript", f.loc)
        # the loop must stop below min_precedence
        if not any(isinstance(n, ast.Compare) and norm(n) == "precedence < min_precedence" for n in f.own_nodes()):
            rep.bad(rid, f"{fname}:min-precedence", f"{fname} lost its `precedence < min_precedence` stop test", f.loc)
        else:
            rep.ok(rid, f"{fname}:min-precedence")


def rule_keyword_tables(ctx, rep, rid: str) -> None:
    rep.rule(rid, "the keyword tables agree: every KEYWORDS token type is in the parser's reserved-word set and vice versa", floor=1)
    kw = keywords_table(ctx)
    f = ctx.tree.method("Parser", "_is_keyword")
    mem: Set[str] = set()
    for n in f.own_nodes():
        if isinstance(n, ast.Set):
            mem = {opcode_member(e, ("TokenType",)) for e in n.elts}
    if not mem:
        raise AnalysisError("Parser._is_keyword set not found")
    a, b = set(kw.values()), mem
    if a != b:
        rep.bad(rid, "keywords", f"KEYWORDS and Parser._is_keyword disagree on {sorted(a ^ b)}: such words cannot be used as property names after '.' (or are not lexed as keywords)", f.loc)
    else:
        rep.ok(rid, "keywords", {"count": len(a)})


# ------------------------------------------------------- receiver method tables
def method_tables(ctx) -> List[Tuple[str, Func, Set[str], Set[str], int]]:
    """(family, factory, names listed by _get_property, keys of the factory's methods dict, line)."""
    t = ctx.tree
    gp = t.method("VM", "_get_property")
    out = []
    for n in gp.own_nodes():
        if isinstance(n, ast.Return) and isinstance(n.value, ast.Call) and isinstance(n.value.func, ast.Attribute) and n.value.func.attr.startswith("_make_") and norm(n.value.func.value) == "self":
            fac = t.find_method(gp.cls, n.value.func.attr)
            p = getattr(n, "_parent", None)
            if not isinstance(p, ast.If) or fac is None:
                continue
            listed: Set[str] = set()
            tst = p.test
            if isinstance(tst, ast.Compare) and isinstance(tst.ops[0], ast.In):
                c = tst.comparators[0]
                if isinstance(c, (ast.Tuple, ast.List)):
                    listed = {const_str(e) for e in c.elts}
                elif isinstance(c, ast.Name):
                    for m in gp.own_nodes():
                        if isinstance(m, ast.Assign) and norm(m.targets[0]) == c.id and isinstance(m.value, (ast.List, ast.Tuple)):
                            if m.lineno < n.lineno:
                                listed = {const_str(e) for e in m.value.elts}
            keys: Set[str] = set()
            fam_name = fac.name.replace("_make_", "").replace("_method", "")
            holders = [fac] + [h for c in fac.own_nodes() if isinstance(c, ast.Call) and isinstance(c.func, ast.Attribute) and norm(c.func.value) == "self" for h in [t.find_method(gp.cls, c.func.attr)] if h is not None and not isinstance(h.node, ast.Lambda)]
            for h in holders:
                for m in h.own_nodes():
                    if isinstance(m, ast.Assign) and norm(m.targets[0]) == "methods" and isinstance(m.value, ast.Dict) and not keys:
                        keys = {const_str(k) for k in m.value.keys}
                        fac = h  # the function that defines the natives (the table may be built by a helper of the entry)
            out.append((fam_name, fac, listed, keys, n.lineno))
    return out


def _is_decorating_wrapper(ctx, call: ast.Call, f) -> bool:
    """call = H(fn): H resolves to repository functions each of which returns a local closure that calls the
    parameter it was given (a decorator applied by hand)."""
    cs = ctx.cg.site_of_call.get(id(call))
    if cs is None or cs.kind != "resolved" or not cs.targets:
        return False
    for h in cs.targets:
        if isinstance(h.node, ast.Lambda):
            return False
        ps = [a.arg for a in h.node.args.args if a.arg not in ("self", "cls")]
        if len(ps) != 1:
            return False
        ok = False
        for r in h.own_nodes():
            if isinstance(r, ast.Return) and isinstance(r.value, ast.Name) and r.value.id in h.children:
                inner = h.children[r.value.id]
                if any(isinstance(c, ast.Call) and isinstance(c.func, ast.Name) and c.func.id == ps[0] for c in inner.own_nodes()):
                    ok = True
        if not ok:
            return False
    return True


def rule_method_tables(ctx, rep, rid: str, families: Optional[Set[str]] = None, floor: int = 1) -> None:
    rep.rule(rid, "the method-name list that property lookup consults for a receiver kind equals the keys of that kind's method table, and every entry is a function defined there", floor=floor)
    for fam, fac, listed, keys, line in method_tables(ctx):
        if families is not None and fam not in families:
            continue
        key = f"{fac.qual}:names"
        loc = f"{fac.module.rel}:{line}"
        if listed != keys:
            rep.bad(rid, key, f"{fam}: names listed by _get_property but not implemented {sorted(listed - keys)} (silently return undefined when called) / implemented but unreachable {sorted(keys - listed)}", loc)
        else:
            rep.ok(rid, key, {"family": fam, "methods": len(keys)})
        # every dict value is a function defined in the factory
        for m in fac.own_nodes():
            if isinstance(m, ast.Assign) and norm(m.targets[0]) == "methods" and isinstance(m.value, ast.Dict):
                for k, v in zip(m.value.keys, m.value.values):
                    if isinstance(v, ast.Call) and len(v.args) == 1 and isinstance(v.args[0], ast.Name) and v.args[0].id in fac.children and _is_decorating_wrapper(ctx, v, fac):
                        continue  # a function defined here, inside a wrapper that calls it
                    if not (isinstance(v, ast.Name) and v.id in fac.children):
                        rep.bad(rid, f"{fac.qual}:{const_str(k)}", f"{fam}.{const_str(k)} is bound to {norm(v)}, which is not a function defined in {fac.name}", f"{fac.module.rel}:{m.lineno}")
