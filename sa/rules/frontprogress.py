"""C04-R5 — the front end makes progress: no loop of the lexer or of a parser can iterate, and no parse
function can call itself again, without having consumed input in between.

Decided by a small abstract interpretation of each function body over the state "has this path consumed
input since <start>?".  Consumption is defined from the code itself:

* a *primitive consumer* moves the cursor unconditionally on every normal path: `self.pos += k` (k > 0) in the
  lexers, `self.current = self.lexer.next_token()` in the token parser (found through the methods that contain
  such a statement at top level, e.g. `_advance`);
* a *conditional consumer* is a method that returns True only on paths that passed a consumer (`_match`);
  in `if self._match(..)` / `while self._match(..)` the true branch has consumed;
* a *consumer* is a function every normal (non-raising) path of which passes a consumer call; the set is the
  least fixpoint, so `_expect`, and every `_parse_x` that bottoms out in one, are included.

What is NOT decided: that the cursor cannot sit at the end of input while a loop keeps "consuming" the end
marker (the token parser's `_advance` returns EOF again and again); the loops exit there because no specific
token matches any more or because an operand parser raises, which is a value-level argument.
"""

from __future__ import annotations

import ast
from typing import Dict, List, Optional, Set, Tuple

from ..core import AnalysisError, Func, norm, short

FRONT_MODULES = ("lexer", "parser", "regex.parser")

FALL, CONT, BRK, RET = "fall", "continue", "break", "return"


class _Progress:
    def __init__(self, ctx, cls):
        self.ctx = ctx
        self.cls = cls
        self.methods: Dict[str, Func] = {}
        for c in ctx.tree.mro(cls):
            for m in c.all_methods:
                self.methods.setdefault(m.name, m)
        self.prim = self._primitives()
        self.cond = set()  # conditional consumers (return True only after consuming)
        self.consumers: Set[str] = set(self.prim)
        self._fixpoint()

    # ------------------------------------------------------------------ primitives
    def _primitives(self) -> Set[str]:
        out = set()
        for name, m in self.methods.items():
            for st in m.body():
                if isinstance(st, ast.AugAssign) and isinstance(st.op, ast.Add) and norm(st.target) == "self.pos" and isinstance(st.value, ast.Constant) and isinstance(st.value.value, int) and st.value.value > 0:
                    out.add(name)
                if isinstance(st, ast.Assign) and any(norm(t) == "self.current" for t in st.targets) and "next_token" in norm(st.value):
                    out.add(name)
        return out

    # --------------------------------------------------------------- expression level
    def _calls(self, e: ast.AST) -> List[ast.Call]:
        return [n for n in ast.walk(e) if isinstance(n, ast.Call)]

    def expr_consumes(self, e: ast.AST) -> bool:
        """Evaluating e certainly passes a consumer (a call that is not under a short-circuit or conditional)."""
        if e is None:
            return False
        if isinstance(e, ast.BoolOp):
            return self.expr_consumes(e.values[0])
        if isinstance(e, ast.IfExp):
            return self.expr_consumes(e.test) or (self.expr_consumes(e.body) and self.expr_consumes(e.orelse))
        if isinstance(e, ast.Call):
            if isinstance(e.func, ast.Attribute) and norm(e.func.value) == "self" and e.func.attr in self.consumers:
                return True
            return any(self.expr_consumes(a) for a in list(e.args) + [k.value for k in e.keywords]) or (isinstance(e.func, ast.Attribute) and self.expr_consumes(e.func.value))
        if isinstance(e, (ast.Lambda, ast.ListComp, ast.GeneratorExp, ast.DictComp, ast.SetComp)):
            return False
        return any(self.expr_consumes(c) for c in ast.iter_child_nodes(e) if isinstance(c, ast.expr))

    def true_consumes(self, t: ast.AST) -> bool:
        """If test t is true, a consumer has run."""
        if self.expr_consumes(t):
            return True
        if isinstance(t, ast.Call) and isinstance(t.func, ast.Attribute) and norm(t.func.value) == "self" and t.func.attr in self.cond:
            return True
        if isinstance(t, ast.BoolOp) and isinstance(t.op, ast.And):
            return any(self.true_consumes(v) for v in t.values)
        if isinstance(t, ast.BoolOp) and isinstance(t.op, ast.Or):
            return all(self.true_consumes(v) for v in t.values)
        return False

    def false_consumes(self, t: ast.AST) -> bool:
        if self.expr_consumes(t):
            return True
        if isinstance(t, ast.UnaryOp) and isinstance(t.op, ast.Not):
            return self.true_consumes(t.operand)
        return False

    # ---------------------------------------------------------------- statement level
    def block(self, stmts: List[ast.stmt], consumed: bool, unconsumed_calls: Optional[Set[str]] = None) -> Set[Tuple[str, bool]]:
        """Outcomes (exit kind, consumed?) of running stmts from a state `consumed`."""
        states = {consumed}
        outs: Set[Tuple[str, bool]] = set()
        for st in stmts:
            nxt: Set[bool] = set()
            for c in states:
                for kind, c2 in self.stmt(st, c, unconsumed_calls):
                    if kind == FALL:
                        nxt.add(c2)
                    else:
                        outs.add((kind, c2))
            states = nxt
            if not states:
                break
        for c in states:
            outs.add((FALL, c))
        return outs

    def _note_calls(self, e: ast.AST, consumed: bool, sink: Optional[Set[str]]) -> None:
        if sink is None or consumed or e is None:
            return
        for c in self._calls(e):
            if isinstance(c.func, ast.Attribute) and norm(c.func.value) == "self":
                sink.add(c.func.attr)

    def stmt(self, st: ast.stmt, c: bool, sink: Optional[Set[str]]) -> Set[Tuple[str, bool]]:
        if isinstance(st, (ast.Return,)):
            self._note_calls(st.value, c, sink)
            return {(RET, c or self.expr_consumes(st.value))}
        if isinstance(st, ast.Raise):
            return set()  # raising ends the parse: no obligation
        if isinstance(st, ast.Break):
            return {(BRK, c)}
        if isinstance(st, ast.Continue):
            return {(CONT, c)}
        if isinstance(st, ast.If):
            self._note_calls(st.test, c, sink)
            a = self.block(st.body, c or self.true_consumes(st.test), sink)
            b = self.block(st.orelse, c or self.false_consumes(st.test), sink)
            return a | b
        if isinstance(st, ast.While):
            self._note_calls(st.test, c, sink)
            body = self.block(st.body, c or self.true_consumes(st.test), sink)
            outs = set()
            # zero iterations, or leaving through the test / a break
            outs.add((FALL, c or self.false_consumes(st.test)))
            for kind, c2 in body:
                if kind == BRK:
                    outs.add((FALL, c2))
                elif kind == RET:
                    outs.add((RET, c2))
                elif kind in (FALL, CONT):
                    outs.add((FALL, c2 or c))
            if st.orelse:
                outs |= self.block(st.orelse, c, sink)
            return outs
        if isinstance(st, ast.For):
            self._note_calls(st.iter, c, sink)
            body = self.block(st.body, c or self.expr_consumes(st.iter), sink)
            outs = {(FALL, c)}
            for kind, c2 in body:
                if kind == RET:
                    outs.add((RET, c2))
                else:
                    outs.add((FALL, c2 or c))
            return outs
        if isinstance(st, ast.Try):
            outs = self.block(st.body, c, sink)
            for h in st.handlers:
                outs |= self.block(h.body, c, sink)
            if st.finalbody:
                res = set()
                for kind, c2 in outs:
                    for k3, c3 in self.block(st.finalbody, c2, sink):
                        res.add((kind if k3 == FALL else k3, c3))
                outs = res
            return outs
        if isinstance(st, ast.With):
            return self.block(st.body, c, sink)
        if isinstance(st, (ast.FunctionDef, ast.ClassDef, ast.Pass, ast.Import, ast.ImportFrom, ast.Global, ast.Nonlocal)):
            return {(FALL, c)}
        # simple statements: Expr, Assign, AugAssign, AnnAssign, Assert, Delete
        e = getattr(st, "value", None)
        self._note_calls(e, c, sink)
        cons = self.expr_consumes(e) if e is not None else False
        if isinstance(st, ast.AugAssign) and isinstance(st.op, ast.Add) and norm(st.target) == "self.pos" and isinstance(st.value, ast.Constant) and isinstance(st.value.value, int) and st.value.value > 0:
            cons = True
        if isinstance(st, ast.Assign) and any(norm(t) == "self.current" for t in st.targets) and "next_token" in norm(st.value):
            cons = True
        return {(FALL, c or cons)}

    # --------------------------------------------------------------------- fixpoint
    def _fixpoint(self) -> None:
        changed = True
        while changed:
            changed = False
            for name, m in self.methods.items():
                outs = self.block(m.body(), False)
                normal = [(k, c) for k, c in outs if k in (FALL, RET)]
                if name not in self.consumers and normal and all(c for _, c in normal):
                    self.consumers.add(name)
                    changed = True
                if name not in self.cond and name not in self.consumers:
                    # returns True only on consumed paths
                    if self._true_only_after_consuming(m):
                        self.cond.add(name)
                        changed = True

    def _true_only_after_consuming(self, m: Func) -> bool:
        rets = [n for n in m.own_nodes() if isinstance(n, ast.Return)]
        if not rets or not any(isinstance(r.value, ast.Constant) and r.value.value is True for r in rets):
            return False
        if not all(isinstance(r.value, ast.Constant) and isinstance(r.value.value, bool) for r in rets):
            return False
        # every `return True` is reached only with consumed = True
        ok = True

        def scan(stmts, c):
            nonlocal ok
            for st in stmts:
                if isinstance(st, ast.Return):
                    if isinstance(st.value, ast.Constant) and st.value.value is True and not c:
                        ok = False
                    return
                if isinstance(st, ast.If):
                    scan(st.body, c or self.true_consumes(st.test))
                    scan(st.orelse, c or self.false_consumes(st.test))
                    continue
                if isinstance(st, (ast.While, ast.For, ast.Try, ast.With)):
                    ok = ok and False if any(isinstance(x, ast.Return) for x in ast.walk(st)) else ok
                    continue
                for k, c2 in self.stmt(st, c, None):
                    c = c2

        scan(m.body(), False)
        return ok


def rule_frontend_progress(ctx, rep, rid: str) -> None:
    rep.rule(rid, "no loop of the lexer, the parser or the regex parser can complete an iteration, and no parse function can re-enter itself, without having consumed input in between (progress of every iteration and no left recursion)", floor=30)
    t = ctx.tree
    n_loops = 0
    for modname in FRONT_MODULES:
        mod = t.mod(modname)
        for ci in mod.classes.values():
            meths = [m for m in ci.all_methods]
            if not any("pos" in norm(n) or "current" in norm(n) for m in meths for n in m.own_nodes() if isinstance(n, ast.Attribute)):
                continue
            pg = _Progress(ctx, ci)
            if not pg.prim:
                continue
            # loops
            for m in meths:
                idx = 0
                for loop in m.own_nodes():
                    if not isinstance(loop, ast.While):
                        continue
                    idx += 1
                    n_loops += 1
                    key = f"{m.qual}:while {short(loop.test, 40)}"
                    body = pg.block(loop.body, pg.true_consumes(loop.test))
                    stuck = [(k, c) for k, c in body if k in (FALL, CONT) and not c]
                    if not stuck:
                        rep.ok(rid, key)
                    else:
                        rep.bad(rid, key, f"{m.qual}: an iteration of `while {short(loop.test, 50)}` can end without consuming input (no cursor advance, token advance or consuming parse call on that path): the front end can spin forever on some input", f"{m.module.rel}:{loop.lineno}")
            # left recursion: functions reachable from f through calls made before anything was consumed
            first: Dict[str, Set[str]] = {}
            for m in meths:
                sink: Set[str] = set()
                pg.block(m.body(), False, sink)
                first[m.name] = {x for x in sink if x in pg.methods}
            for m in meths:
                seen: Set[str] = set()
                work = list(first.get(m.name, ()))
                path_found = False
                while work:
                    x = work.pop()
                    if x == m.name:
                        path_found = True
                        break
                    if x in seen:
                        continue
                    seen.add(x)
                    work.extend(first.get(x, ()))
                if not m.name.startswith(("_parse", "parse", "_continue", "_read", "_skip", "next_token")):
                    continue
                key = f"{m.qual}:left-recursion"
                if path_found:
                    rep.bad(rid, key, f"{m.qual} can call itself again (directly or through other parse functions) before any input was consumed: unbounded recursion on some input", m.loc)
                else:
                    rep.ok(rid, key)
    rep.analysed["frontend_loops"] = n_loops
