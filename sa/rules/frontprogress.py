"""C04-R5 / C10-R5 — the front end makes progress: no loop of the lexer, the token parser or the regex parser can
complete an iteration, and no parse function can call itself again, without having consumed input in between.

Decided by a small path-sensitive abstract interpretation of each method body.  The abstract state of a path is

    c   has the cursor certainly moved forward since the start (of the method / of the loop iteration)?
    ne  is the cursor certainly NOT at the end of the input (nothing consumed since that was established)?
    W   local counters k with the invariant  k > 0  =>  c      (k = 0 ... consume; k += 1)
    A   locals that hold the character at the cursor (ch = self._current()), valid until something is consumed
    E   locals v with the invariant  v is not the end-of-input token  =>  c     (v = self.next_token())

Everything is read from the code of the class under analysis:

* the *cursor* is `self.pos` (character scanners) or `self.current` (token parser);
* a statement `self.pos += k` (k > 0) or `self.current = self.lexer.next_token()` consumes;
* an *end test* is a comparison of the cursor with the input length (`self.pos < len(self.pattern)`,
  `self.pos >= self.length`), a call of an *accessor* (a method that returns the character at the cursor, or
  None / "" at the end) tested for truth / `is not None` / equality with a non-empty literal / `.isdigit()`...,
  or a method whose body is `return <end test>`;
* method summaries (least fixpoint): *consumer* (every normal path consumes), *consumer when not at the end*
  (`_advance` of the scanners), *conditional consumer* (returns True only on paths that consumed: `_match`),
  *consumer or end token* (`Lexer.next_token`);
* writes to the cursor other than a forward step are roll-backs: restoring a value saved in the same function
  puts `c` back to False (look-ahead helpers consume nothing); any other one (`self.pos -= 1`) makes the
  function and its callers unable to claim consumption.

Also decided here: loops over a LOCAL index (`while i < len(pattern)`): on every iteration path the index is
assigned a value that is provably greater than its value at the start of the iteration (`i += 1`,
`i = j + 1` with `j >= i`; `str.find` may return -1 and proves nothing unless that case leaves the loop).

What is NOT decided: that the token parser's loops leave at the end of input (its `_advance` hands out the end
token again and again; the loops stop there because no specific token matches or an operand parser raises).
"""

from __future__ import annotations

import ast
from typing import Dict, FrozenSet, Iterable, List, NamedTuple, Optional, Set, Tuple

from ..core import AnalysisError, Func, norm, short

FRONT_MODULES = ("lexer", "parser", "regex.parser")

FALL, CONT, BRK, RET = "fall", "continue", "break", "return"


class St(NamedTuple):
    c: bool
    ne: bool
    W: FrozenSet[str]  # counters:   k > 0            => c
    A: FrozenSet[str]  # locals holding the character at the cursor
    E: FrozenSet[str]  # tokens:     v is not EOF     => c
    N: FrozenSet[str]  # results:    v is not None    => c
    P: FrozenSet[str]  # snapshots:  self.pos != v    => c
    F: FrozenSet[Tuple[str, bool]]  # literals known about the character at the cursor ("$")


_E: FrozenSet = frozenset()
START = St(False, False, _E, _E, _E, _E, _E, _E)
_RESET = START

_CHAR_PREDICATES = ("isdigit", "isalpha", "isalnum", "isspace", "isidentifier", "isupper", "islower", "isdecimal", "isnumeric")


def _consumed(st: St) -> St:
    return St(True, False, st.W, _E, st.E, st.N, st.P, _E)


def _maybe_moved(st: St) -> St:
    return St(st.c, False, st.W, _E, st.E, st.N, st.P, _E)


def _join(a: St, b: St) -> St:
    return St(a.c and b.c, a.ne and b.ne, a.W & b.W, a.A & b.A, a.E & b.E, a.N & b.N, a.P & b.P, a.F & b.F)


class _Progress:
    def __init__(self, ctx, cls):
        self.ctx = ctx
        self.cls = cls
        self.methods: Dict[str, Func] = {}
        for c in ctx.tree.mro(cls):
            for m in c.all_methods:
                self.methods.setdefault(m.name, m)
        self.cursors = self._cursor_exprs()
        self.length_attrs = self._length_attrs()
        self.accessors = self._accessors()  # name -> "none" | "empty"
        self.end_methods: Dict[str, str] = self._end_methods()  # name -> "IFF+" / "IFF-"
        self.writes = {n for n, m in self.methods.items() if any(self._cursor_write(x, m) for x in m.own_nodes())}
        self.may_consume = self._closure(self.writes)
        self.unbalanced = {n for n, m in self.methods.items() if n not in ("__init__",) and self._has_unbalanced_rollback(m)}
        self.may_rollback = self._closure(self.unbalanced)
        self.decremented: Dict[str, Set[str]] = {n: {norm(x.target) for x in m.own_nodes() if isinstance(x, ast.AugAssign) and isinstance(x.op, ast.Sub)} for n, m in self.methods.items()}
        self.consumers: Set[str] = set()
        self.consumers_ne: Set[str] = set()
        self.cond: Set[str] = set()
        self.eof_or: Set[str] = set()
        self.none_or: Set[str] = set()
        self._cur: Optional[Func] = None
        self._inline: List[str] = []
        self._allcalls: Optional[Set[Tuple[str, bool]]] = None
        self.touched_opaque = False
        self.opaque = self._closure({n for n, m in self.methods.items() if any(self._jump(x, m) == "opaque" for x in m.own_nodes())})
        if self.cursors:
            self._fixpoint()

    # ------------------------------------------------------------------ class facts
    def _cursor_exprs(self) -> Set[str]:
        out = set()
        for m in self.methods.values():
            for st in m.own_nodes():
                if isinstance(st, ast.AugAssign) and isinstance(st.op, ast.Add) and norm(st.target) == "self.pos":
                    out.add("self.pos")
                if isinstance(st, ast.Assign) and any(norm(t) == "self.current" for t in st.targets) and "next_token" in norm(st.value):
                    out.update({"self.current", "self.lexer.pos"})
        return out

    def _length_attrs(self) -> Set[str]:
        out = set()
        init = self.methods.get("__init__")
        if init:
            for st in init.own_nodes():
                if isinstance(st, ast.Assign) and isinstance(st.value, ast.Call) and norm(st.value.func) == "len":
                    out.update(norm(t) for t in st.targets)
        return out

    def _is_length(self, e: ast.AST) -> bool:
        return norm(e) in self.length_attrs or (isinstance(e, ast.Call) and norm(e.func) == "len" and len(e.args) == 1 and norm(e.args[0]).startswith("self."))

    def _prim_end_test(self, e: ast.AST) -> Optional[str]:
        """`self.pos < LEN` -> IFF+ (true iff not at the end); `self.pos >= LEN` -> IFF-."""
        if isinstance(e, ast.Compare) and len(e.ops) == 1:
            l, r, op = e.left, e.comparators[0], e.ops[0]
            if norm(l) == "self.pos" and self._is_length(r):
                if isinstance(op, ast.Lt):
                    return "IFF+"
                if isinstance(op, ast.GtE):
                    return "IFF-"
            if norm(r) == "self.pos" and self._is_length(l):
                if isinstance(op, ast.Gt):
                    return "IFF+"
                if isinstance(op, ast.LtE):
                    return "IFF-"
            # self.pos + k < LEN  =>  not at the end
            if isinstance(l, ast.BinOp) and isinstance(l.op, ast.Add) and norm(l.left) == "self.pos" and isinstance(l.right, ast.Constant) and isinstance(l.right.value, int) and l.right.value >= 0 and self._is_length(r) and isinstance(op, ast.Lt):
                return "IMP+"
        return None

    def _accessors(self) -> Dict[str, str]:
        out = {}
        for name, m in self.methods.items():
            if isinstance(m.node, ast.Lambda):
                continue
            a = m.node.args
            if len(a.args) != 1 or a.vararg or a.kwarg:
                continue
            body = [s for s in m.body() if not (isinstance(s, ast.Expr) and isinstance(s.value, ast.Constant))]
            if len(body) != 2 or not isinstance(body[0], ast.If) or body[0].orelse or len(body[0].body) != 1 or not isinstance(body[0].body[0], ast.Return) or not isinstance(body[1], ast.Return):
                continue
            kind = self._prim_end_test(body[0].test)
            r_in, r_out = body[0].body[0].value, body[1].value
            if kind == "IFF-":
                r_in, r_out = r_out, r_in
            elif kind != "IFF+":
                continue
            # r_in: value when not at the end; r_out: value at the end
            if isinstance(r_in, ast.Subscript) and norm(r_in.slice) == "self.pos" and isinstance(r_out, ast.Constant) and r_out.value in (None, ""):
                out[name] = "none" if r_out.value is None else "empty"
        return out

    def _end_methods(self) -> Dict[str, str]:
        out = {}
        for name, m in self.methods.items():
            body = [s for s in m.body() if not (isinstance(s, ast.Expr) and isinstance(s.value, ast.Constant))]
            if len(body) == 1 and isinstance(body[0], ast.Return) and body[0].value is not None:
                k = self._prim_end_test(body[0].value)
                if k in ("IFF+", "IFF-"):
                    out[name] = k
        return out

    @staticmethod
    def _flat_targets(x: ast.AST) -> List[ast.AST]:
        tg = x.targets if isinstance(x, ast.Assign) else ([x.target] if isinstance(x, (ast.AugAssign, ast.AnnAssign)) else [])
        out: List[ast.AST] = []
        for t in tg:
            out += list(t.elts) if isinstance(t, (ast.Tuple, ast.List)) else [t]
        return out

    def _cn(self, e: ast.AST, m: Optional[Func]) -> str:
        """Normalised text of e with one-step local aliases of self attributes expanded (lexer = self.lexer)."""
        txt = norm(e)
        if m is None or isinstance(m.node, ast.Lambda):
            return txt
        head = txt.split(".")[0]
        if head != "self" and "." in txt:
            defs = [n.value for n in m.own_nodes() if isinstance(n, ast.Assign) and len(n.targets) == 1 and isinstance(n.targets[0], ast.Name) and n.targets[0].id == head]
            if len(defs) == 1 and norm(defs[0]).startswith("self."):
                return norm(defs[0]) + txt[len(head):]
        return txt

    def _cursor_write(self, x: ast.AST, m: Optional[Func] = None) -> bool:
        m = m or self._cur
        return any(self._cn(t, m) in self.cursors for t in self._flat_targets(x))

    def _forward_step(self, x: ast.AST) -> bool:
        if isinstance(x, ast.AugAssign) and isinstance(x.op, ast.Add) and norm(x.target) == "self.pos" and isinstance(x.value, ast.Constant) and isinstance(x.value.value, int) and x.value.value > 0:
            return True
        if isinstance(x, ast.Assign) and any(norm(t) == "self.current" for t in x.targets) and isinstance(x.value, ast.Call) and norm(x.value.func).endswith(".next_token"):
            return True
        return False

    def _saved_locals(self, m: Func) -> Set[str]:
        """Locals that hold a copy of a cursor taken by this function (saved_pos = self.lexer.pos; also a tuple
        of such copies, and the result of a method that returns one)."""
        out = set()
        for x in m.own_nodes():
            if not (isinstance(x, ast.Assign) and len(x.targets) == 1 and isinstance(x.targets[0], ast.Name)):
                continue
            v = x.value
            parts = list(v.elts) if isinstance(v, ast.Tuple) else [v]
            if any(self._cn(p, m) in self.cursors for p in parts):
                out.add(x.targets[0].id)
            nm = self._self_method(v)
            if nm and nm in self._savers():
                out.add(x.targets[0].id)
        return out

    def _savers(self) -> Set[str]:
        """Methods that only return a copy of the cursor (`_mark`)."""
        cache = self.__dict__.get("_savers_cache")
        if cache is None:
            cache = set()
            for name, g in self.methods.items():
                if isinstance(g.node, ast.Lambda):
                    continue
                rets = [r.value for r in g.own_nodes() if isinstance(r, ast.Return) and r.value is not None]
                if rets and all(any(self._cn(p, g) in self.cursors for p in (list(r.elts) if isinstance(r, ast.Tuple) else [r])) for r in rets) and not any(self._flat_targets(x) and any(self._cn(t, g) in self.cursors for t in self._flat_targets(x)) for x in g.own_nodes()):
                    cache.add(name)
            self.__dict__["_savers_cache"] = cache
        return cache

    def _restorers(self) -> Set[str]:
        """Methods whose cursor writes all put back a value handed in by the caller (`_reset(mark)`), and
        generator context managers that put the cursor back after their yield (`with self._lookahead():`)."""
        cache = self.__dict__.get("_restorers_cache")
        if cache is None:
            cache = set()
            self.__dict__["_restorers_cache"] = cache
            for name, g in self.methods.items():
                if isinstance(g.node, ast.Lambda) or name == "__init__":
                    continue
                ws = [x for x in g.own_nodes() if self._cursor_write(x, g)]
                if not ws or not all(self._restore(x, g) for x in ws):
                    continue
                params = set(g.params()) - {"self"}
                from_param = all(isinstance(x.value, ast.Name) and x.value.id in params for x in ws)
                is_manager = any(norm(d).split(".")[-1] == "contextmanager" for d in g.node.decorator_list)
                if from_param or is_manager:
                    cache.add(name)
        return cache

    def _restore(self, x: ast.AST, m: Func) -> bool:
        """A cursor write whose value is a copy saved in this function, or (in a restore helper) its own parameter."""
        if not isinstance(x, ast.Assign):
            return False
        tg = self._flat_targets(x)
        if not tg or not any(self._cn(t, m) in self.cursors for t in tg):
            return False
        if isinstance(x.value, ast.Name):
            if x.value.id in self._saved_locals(m):
                return True
            return x.value.id in (set(m.params()) - {"self"}) and self._called_with_saved_cursor(m)
        return False

    def _called_with_saved_cursor(self, m: Func) -> bool:
        """Every call of method m inside the class hands it a cursor copy the caller saved (`self._reset(mark)`);
        a helper that is given computed offsets (`self._skip_to(end)`) jumps, it does not restore."""
        cache = self.__dict__.setdefault("_cwsc_cache", {})
        if m.name in cache:
            return cache[m.name]
        cache[m.name] = False  # while computing (recursion through _saved_locals -> _savers is harmless)
        sites = []
        for g in self.methods.values():
            if isinstance(g.node, ast.Lambda):
                continue
            for c in g.own_nodes():
                if isinstance(c, ast.Call) and self._self_method(c) == m.name:
                    sites.append((g, c))
        ok = bool(sites) and all(c.args and isinstance(c.args[0], ast.Name) and c.args[0].id in self._saved_locals(g) for g, c in sites)
        cache[m.name] = ok
        return ok

    def _jump(self, x: ast.AST, m: Func) -> Optional[str]:
        """`self.pos = E` that is neither a reset of the entry point nor a restore of a saved cursor:
        "forward" (E provably beyond the cursor), "stay" (provably not before it) or "opaque"."""
        if not (isinstance(x, ast.Assign) and len(x.targets) == 1 and norm(x.targets[0]) == "self.pos") or self._restore(x, m):
            return None
        if m.name == "__init__" or (m.name == "parse" and isinstance(x.value, ast.Constant)):
            return None  # initialisation / the entry point's reset
        il = _IndexLoop(self.ctx, m, self.methods)
        env: Env = {"self.pos": _Rel(GE, False)}
        # locals with a single definition, in source order before the jump
        for n in sorted((n for n in m.own_nodes() if isinstance(n, ast.Assign) and len(n.targets) == 1 and isinstance(n.targets[0], ast.Name) and n.lineno < x.lineno), key=lambda n: n.lineno):
            nm = n.targets[0].id
            if sum(1 for k in m.own_nodes() if isinstance(k, (ast.Assign, ast.AugAssign)) and any(isinstance(t, ast.Name) and t.id == nm for t in (k.targets if isinstance(k, ast.Assign) else [k.target]))) == 1:
                env[nm] = il.val(n.value, env)
        r = il.val(x.value, env)
        if r.neg or r.rel == UNK:
            return "opaque"
        return "forward" if r.rel == GT else "stay"

    def _has_unbalanced_rollback(self, m: Func) -> bool:
        for x in m.own_nodes():
            if self._cursor_write(x, m) and not self._forward_step(x) and not self._restore(x, m):
                if m.name == "parse" and isinstance(x, ast.Assign) and isinstance(x.value, ast.Constant):
                    continue  # the entry point resets the cursor before it starts
                if self._jump(x, m) is not None:
                    continue  # an absolute jump: judged (or declared opaque) where it is executed
                return True
        return False

    def _self_calls(self, m: Func) -> Set[str]:
        return {c.func.attr for c in m.own_nodes() if isinstance(c, ast.Call) and isinstance(c.func, ast.Attribute) and norm(c.func.value) == "self" and c.func.attr in self.methods}

    def _closure(self, seed: Set[str]) -> Set[str]:
        out = set(seed)
        changed = True
        while changed:
            changed = False
            for n, m in self.methods.items():
                if n not in out and self._self_calls(m) & out:
                    out.add(n)
                    changed = True
        return out

    # --------------------------------------------------------------- expression level
    def _self_method(self, e: ast.AST) -> Optional[str]:
        if isinstance(e, ast.Call) and isinstance(e.func, ast.Attribute) and norm(e.func.value) == "self" and e.func.attr in self.methods:
            return e.func.attr
        return None

    def _appliers(self) -> Dict[str, int]:
        """Methods that run a callable they are given (`def _allowing_in(self, parse): ... return parse()`), mapped to
        the position of that argument: the callable is called on every path to a normal exit."""
        c = getattr(self, "_appliers_cache", None)
        if c is not None:
            return c
        out: Dict[str, int] = {}
        for name, m in self.methods.items():
            if isinstance(m.node, ast.Lambda):
                continue
            ps = [a.arg for a in m.node.args.args if a.arg != "self"]
            for i, p in enumerate(ps):
                calls = [n for n in m.own_nodes() if isinstance(n, ast.Call) and isinstance(n.func, ast.Name) and n.func.id == p and not n.args]
                if not calls:
                    continue
                cfg = self.ctx.facts.cfg(m)
                ids = {id(c_) for c_ in calls}
                blocked = {nd.id for nd in cfg.nodes if nd.ast is not None and any(id(x) in ids for x in ast.walk(nd.ast))}
                if cfg.path_avoiding(cfg.entry.id, lambda nd: nd.id == cfg.exit.id, blocked, None) is None:
                    out[name] = i
        self._appliers_cache = out
        return out

    def _call_effect(self, name: str, st: St, sink: Optional[Set]) -> St:
        if sink is not None and not st.c:
            sink.add((name, st.ne))
        if self._allcalls is not None:
            self._allcalls.add((name, st.ne))
        if name in self.opaque:
            self.touched_opaque = True
        if name in self.may_rollback or name in self._restorers():
            return _RESET
        if name in self.consumers or (name in self.consumers_ne and st.ne):
            return _consumed(st)
        if name not in self.may_consume:
            return st
        if (st.F or st.ne) and name not in self._inline and len(self._inline) < 2 and not isinstance(self.methods[name].node, ast.Lambda):
            # what is known about the character at the cursor decides which paths of a scanner helper are
            # feasible (`if ch.isdigit(): self._read_number()`): run the helper from this very state
            self._inline.append(name)
            try:
                outs = [o for o in self.outcomes(self.methods[name], St(st.c, st.ne, _E, _E, _E, _E, _E, st.F), sink) if o[0] in (FALL, RET)]
            finally:
                self._inline.pop()
            if not outs or all(o[1].c for o in outs):
                return _consumed(st)
        return _maybe_moved(st)

    def expr(self, e: Optional[ast.AST], st: St, sink: Optional[Set[str]], certain: bool = True) -> St:
        """State after evaluating e.  `certain` False: e may not be evaluated at all (right operand of and/or,
        arm of a conditional expression, element of a comprehension): only its may-effects count."""
        if e is None:
            return st
        if isinstance(e, ast.BoolOp):
            st = self.expr(e.values[0], st, sink, certain)
            for v in e.values[1:]:
                st = self.expr(v, st, sink, False)
            return st
        if isinstance(e, ast.IfExp):
            st = self.expr(e.test, st, sink, certain)
            a = self.expr(e.body, st, sink, certain)
            b = self.expr(e.orelse, st, sink, certain)
            return _join(a, b)
        if isinstance(e, ast.Lambda):
            return st
        if isinstance(e, (ast.ListComp, ast.GeneratorExp, ast.SetComp, ast.DictComp)):
            for x in ast.walk(e):
                nm = self._self_method(x)
                if nm:
                    st = self._uncertain(self._call_effect(nm, st, sink), st)
            return st
        if isinstance(e, ast.Call):
            if isinstance(e.func, ast.Attribute):
                st = self.expr(e.func.value, st, sink, certain)
            for a in list(e.args) + [k.value for k in e.keywords]:
                st = self.expr(a, st, sink, certain)
            nm = self._self_method(e)
            if nm:
                before = st
                ap = self._appliers().get(nm)
                if ap is not None and ap < len(e.args):
                    # a helper that runs the callable it is given: the effect of that callable comes first
                    a = e.args[ap]
                    if isinstance(a, ast.Lambda):
                        st = self.expr(a.body, st, sink, True)
                    elif isinstance(a, ast.Attribute) and norm(a.value) == "self" and a.attr in self.methods:
                        st = self._call_effect(a.attr, st, sink)
                    else:
                        st = _maybe_moved(st)
                after = self._call_effect(nm, st, sink)
                return after if certain else self._uncertain(after, before)
            return st
        for c in ast.iter_child_nodes(e):
            if isinstance(c, ast.expr):
                st = self.expr(c, st, sink, certain)
        return st

    @staticmethod
    def _uncertain(after: St, before: St) -> St:
        """The effect may or may not have happened."""
        return _join(before, after)

    # ------------------------------------------------------------------- tests
    def _char_source(self, e: ast.AST, st: St) -> Optional[str]:
        """"none"/"empty" when e is the character at the cursor (accessor call, or a valid local copy)."""
        nm = self._self_method(e)
        if nm in self.accessors and not e.args and not e.keywords:
            return self.accessors[nm]
        if isinstance(e, ast.Name) and e.id in st.A:
            kinds = set(self.accessors.values())
            return next(iter(kinds)) if len(kinds) == 1 else None
        return None

    def _atom_end_kind(self, t: ast.AST, st: St) -> Optional[str]:
        k = self._prim_end_test(t)
        if k:
            return k
        nm = self._self_method(t)
        if nm in self.end_methods and not t.args:
            return self.end_methods[nm]
        src = self._char_source(t, st)
        if src:
            return "IFF+"  # truthiness of the current character
        if isinstance(t, ast.Compare) and len(t.ops) == 1:
            l, r, op = t.left, t.comparators[0], t.ops[0]
            src = self._char_source(l, st)
            if src:
                if isinstance(r, ast.Constant) and r.value is None:
                    if isinstance(op, (ast.IsNot, ast.NotEq)):
                        return "IFF+" if src == "none" else None
                    if isinstance(op, (ast.Is, ast.Eq)):
                        return "IFF-" if src == "none" else None
                    return None
                if isinstance(op, ast.Eq):
                    if isinstance(r, ast.Constant) and isinstance(r.value, str) and r.value:
                        return "IMP+"
                    if src == "none" and self._is_str_valued(r):
                        return "IMP+"
                if isinstance(op, ast.In) and src == "none":
                    return "IMP+"  # `None in "..."` raises: a True outcome means a character
                if isinstance(op, ast.In) and isinstance(r, (ast.Tuple, ast.List, ast.Set)) and all(isinstance(x, ast.Constant) and isinstance(x.value, str) and x.value for x in r.elts):
                    return "IMP+"
        if isinstance(t, ast.Call) and isinstance(t.func, ast.Attribute) and t.func.attr in _CHAR_PREDICATES and self._char_source(t.func.value, st):
            return "IMP+"  # "".isdigit() is False
        if isinstance(t, ast.Call) and isinstance(t.func, ast.Name) and len(t.args) == 1 and not t.keywords and self._char_source(t.args[0], st) and self._predicate_needs_a_character(t.func.id):
            return "IMP+"  # a module-level character predicate that is false for "" (len(ch) == 1 and ...)
        return None

    def _module_function(self, name: str) -> bool:
        """A module-level function of the repository: it has no access to the scanner, so it cannot move it."""
        mod = next(iter(self.methods.values())).module if self.methods else None
        return mod is not None and self.ctx.tree.resolve_function_name(mod, name) is not None

    def _predicate_needs_a_character(self, name: str) -> bool:
        cache = self.__dict__.setdefault("_pred_cache", {})
        if name in cache:
            return cache[name]
        ok = False
        mod = next(iter(self.methods.values())).module if self.methods else None
        g = self.ctx.tree.resolve_function_name(mod, name) if mod is not None else None
        if g is not None and not isinstance(g.node, ast.Lambda) and len(g.params()) == 1:
            p = g.params()[0]
            body = [x for x in g.body() if not (isinstance(x, ast.Expr) and isinstance(x.value, ast.Constant))]
            if len(body) == 1 and isinstance(body[0], ast.Return) and body[0].value is not None:
                v = body[0].value
                conj = v.values if isinstance(v, ast.BoolOp) and isinstance(v.op, ast.And) else [v]
                for c in conj:
                    txt = norm(c)
                    if txt in (f"len({p}) == 1", p, f"{p} != ''", f"len({p}) > 0", f"bool({p})"):
                        ok = True
        cache[name] = ok
        return ok

    def _is_str_valued(self, e: ast.AST) -> bool:
        if isinstance(e, ast.Constant):
            return isinstance(e.value, str)
        if isinstance(e, ast.Name) and self._cur is not None and not isinstance(self._cur.node, ast.Lambda):
            for x in self._cur.node.args.args:
                if x.arg == e.id and x.annotation is not None and norm(x.annotation) == "str":
                    return True
        return False

    def _char_literal(self, t: ast.AST, st: St) -> Optional[Tuple[str, bool]]:
        """(text, polarity-of-the-text-when-t-is-true) of an atom about the character at the cursor, with the
        accessor call / local copy written as `$`; != and `not in` are folded into == and `in`."""
        import re as _re
        found = [n for n in ast.walk(t) if isinstance(n, ast.expr) and self._char_source(n, st)]
        if not found:
            # another side-effect-free test of the scanner state (`self._peek().isdigit()`): an opaque literal
            calls = [n for n in ast.walk(t) if isinstance(n, ast.Call)]
            pure = all((self._self_method(c) and self._self_method(c) not in self.may_consume) or (isinstance(c.func, ast.Attribute) and c.func.attr in _CHAR_PREDICATES) or norm(c.func) == "len" or (isinstance(c.func, ast.Name) and self._module_function(c.func.id)) for c in calls)
            if pure and any(self._self_method(c) for c in calls) and not isinstance(t, (ast.BoolOp, ast.IfExp)):
                return (ast.unparse(t), True)
            return None
        txt = ast.unparse(t)
        for n in found:
            u = ast.unparse(n)
            txt = _re.sub(r"(?<![\w.])" + _re.escape(u) + r"(?![\w(])", "$", txt) if isinstance(n, ast.Name) else txt.replace(u, "$")
        pos = True
        for neg, posop in ((" != ", " == "), (" not in ", " in "), (" is not ", " is ")):
            if txt.startswith("$" + neg):
                txt = "$" + posop + txt[len("$" + neg):]
                pos = False
                break
        return (txt, pos)

    _IMPLIES = {"isalpha": ("isalnum",), "isdigit": ("isalnum", "isnumeric"), "isdecimal": ("isdigit", "isalnum", "isnumeric"), "isnumeric": ("isalnum",)}

    def _consistent(self, F: FrozenSet[Tuple[str, bool]], ne: bool) -> bool:
        import re as _re
        d: Dict[str, bool] = {}
        for txt, pol in F:
            if d.get(txt, pol) != pol:
                return False
            d[txt] = pol
        if ne and d.get("$") is False:
            return False

        def const_of(txt: str, prefix: str) -> Optional[str]:
            if txt.startswith(prefix):
                try:
                    v = ast.literal_eval(txt[len(prefix):])
                except Exception:
                    return None
                return v if isinstance(v, str) else None
            return None

        eqs = [c for txt, pol in d.items() if pol for c in [const_of(txt, "$ == ")] if c is not None]
        if len(set(eqs)) > 1:
            return False

        def holds(txt: str, ch: str) -> Optional[bool]:
            if txt == "$":
                return bool(ch)
            c = const_of(txt, "$ == ")
            if c is not None:
                return ch == c
            c = const_of(txt, "$ in ")
            if c is not None:
                return ch in c
            m = _re.fullmatch(r"\$\.(is[a-z]+)\(\)", txt)
            if m and m.group(1) in _CHAR_PREDICATES:
                return bool(getattr(ch, m.group(1))())
            if txt == "$ is None":
                return False
            return None

        if eqs:
            for txt, pol in d.items():
                h = holds(txt, eqs[0])
                if h is not None and h != pol:
                    return False
        # a character known by a positive predicate is a character
        positive = [txt for txt, pol in d.items() if pol and (txt.startswith("$ == ") and const_of(txt, "$ == ") or _re.fullmatch(r"\$\.is[a-z]+\(\)", txt))]
        if positive and (d.get("$") is False or d.get("$ is None") is True):
            return False
        for txt, pol in d.items():
            m = _re.fullmatch(r"\$\.(is[a-z]+)\(\)", txt)
            if m and pol:
                for q in self._IMPLIES.get(m.group(1), ()):
                    if d.get(f"$.{q}()") is False:
                        return False
        # membership: $ in "abc" true and every member fails another literal
        for txt, pol in d.items():
            c = const_of(txt, "$ in ")
            if c is not None and pol and (ne or d.get("$") is True) and c:
                members = [ch for ch in c]
                alive = [ch for ch in members if all((holds(t2, ch) is None or holds(t2, ch) == p2) for t2, p2 in d.items())]
                if not alive:
                    return False
        return True

    def _witness(self, t: ast.AST, st: St, pol: bool) -> bool:
        """Does `t` being `pol` prove consumption through a counter / end-token witness?"""
        dec = self.decremented.get(self._cur.name, set()) if self._cur else set()
        if isinstance(t, ast.Name) and t.id in st.W and t.id not in dec:
            return pol
        if isinstance(t, ast.Name) and t.id in st.N:
            return pol  # a true value is not None
        if isinstance(t, ast.Compare) and len(t.ops) == 1:
            l, r, op = t.left, t.comparators[0], t.ops[0]
            if isinstance(l, ast.Name) and l.id in st.W and isinstance(r, ast.Constant) and isinstance(r.value, int):
                v = r.value
                if pol:
                    if (isinstance(op, ast.Gt) and v >= 0) or (isinstance(op, ast.GtE) and v >= 1):
                        return True
                    if isinstance(op, ast.NotEq) and v == 0 and l.id not in dec:
                        return True
                else:
                    if (isinstance(op, ast.LtE) and v >= 0) or (isinstance(op, ast.Lt) and v >= 1):
                        return True
                    if isinstance(op, ast.Eq) and v == 0 and l.id not in dec:
                        return True
            # result is None / result is not None
            if isinstance(l, ast.Name) and l.id in st.N and isinstance(r, ast.Constant) and r.value is None:
                if (isinstance(op, (ast.IsNot, ast.NotEq)) and pol) or (isinstance(op, (ast.Is, ast.Eq)) and not pol):
                    return True
            # self.pos == snapshot   (the cursor never moves backwards in this class)
            if not self.may_rollback:
                for a, b in ((l, r), (r, l)):
                    if norm(a) in self.cursors and isinstance(b, ast.Name) and b.id in st.P:
                        if (isinstance(op, ast.NotEq) and pol) or (isinstance(op, ast.Eq) and not pol):
                            return True
                        if pol and ((a is l and isinstance(op, ast.Gt)) or (a is r and isinstance(op, ast.Lt))):
                            return True
            # token.type == TokenType.EOF
            if isinstance(l, ast.Attribute) and l.attr == "type" and isinstance(l.value, ast.Name) and l.value.id in st.E and isinstance(r, ast.Attribute) and r.attr == "EOF":
                if (isinstance(op, ast.Eq) and not pol) or (isinstance(op, ast.NotEq) and pol):
                    return True
        return False

    def refine(self, t: ast.AST, st: St, pol: bool, sink: Optional[Set[str]]) -> List[St]:
        """States in which test t has just evaluated to `pol` (empty list: cannot happen)."""
        if isinstance(t, ast.UnaryOp) and isinstance(t.op, ast.Not):
            return self.refine(t.operand, st, not pol, sink)
        if isinstance(t, ast.BoolOp):
            conj = isinstance(t.op, ast.And)
            if pol == conj:
                # all operands evaluated, each with outcome pol
                states = [st]
                for v in t.values:
                    states = [s2 for s in states for s2 in self.refine(v, s, pol, sink)]
                return states
            # the first i operands had outcome `conj`, operand i had `not conj`
            out: List[St] = []
            states = [st]
            for v in t.values:
                out += [s2 for s in states for s2 in self.refine(v, s, pol, sink)]
                states = [s2 for s in states for s2 in self.refine(v, s, not pol, sink)]
            return out
        # atom: end test judged on the state BEFORE the test's own effects (its calls are pure or consume)
        kind = self._atom_end_kind(t, st)
        after = self.expr(t, st, sink)
        nm = self._self_method(t)
        if nm in self.cond and pol:
            after = _consumed(after)
        if self._witness(t, after, pol):
            after = after._replace(c=True)
        if after.c == st.c and after.A == st.A and after.ne == st.ne:  # nothing moved during the test
            lit = self._char_literal(t, st)
            if lit is not None:
                F2 = after.F | {(lit[0], lit[1] == pol)}
                if not self._consistent(F2, after.ne or (kind in ("IFF+", "IMP+") and pol) or (kind == "IFF-" and not pol)):
                    return []
                # keep the abstraction small: negative equalities/memberships only serve the check just made
                keep = frozenset(x for x in F2 if x[1] or not (x[0].startswith("$ == ") or x[0].startswith("$ in ")))
                if len(keep) > 6:
                    keep = frozenset(sorted(keep, key=lambda x: (not x[1], x[0]))[:6])
                after = after._replace(F=keep)
        if kind and after.c == st.c and after.A == st.A:  # nothing moved during the test
            if kind == "IFF+":
                if pol:
                    after = after._replace(ne=True)
                elif st.ne:
                    return []
            elif kind == "IFF-":
                if not pol:
                    after = after._replace(ne=True)
                elif st.ne:
                    return []
            elif kind == "IMP+" and pol:
                after = after._replace(ne=True)
        return [after]

    # ---------------------------------------------------------------- statement level
    def block(self, stmts: List[ast.stmt], states: Iterable[St], sink: Optional[Set[str]] = None) -> Set[Tuple[str, St, str]]:
        """Outcomes (exit kind, state, return info) of running stmts from each of `states`."""
        cur: Set[St] = set(states)
        outs: Set[Tuple[str, St, str]] = set()
        for s in stmts:
            nxt: Set[St] = set()
            for st in cur:
                for kind, st2, info in self.stmt(s, st, sink):
                    if kind == FALL:
                        nxt.add(st2)
                    else:
                        outs.add((kind, st2, info))
            cur = nxt
            if not cur:
                break
        for st in cur:
            outs.add((FALL, st, ""))
        return outs

    def _ret_info(self, v: Optional[ast.AST]) -> str:
        if isinstance(v, ast.Constant) and v.value is True:
            return "true"
        if v is None or (isinstance(v, ast.Constant) and v.value is None):
            return "none"
        if isinstance(v, ast.Constant) and v.value is False:
            return "false"
        if isinstance(v, ast.Call) and v.args and isinstance(v.args[0], ast.Attribute) and v.args[0].attr == "EOF":
            return "eof"
        return "other"

    def _loop(self, test: Optional[ast.AST], body: List[ast.stmt], orelse: List[ast.stmt], st: St, sink) -> Set[Tuple[str, St, str]]:
        outs: Set[Tuple[str, St, str]] = set()
        heads: Set[St] = {st}
        work = [st]
        exits: Set[St] = set()
        while work:
            h = work.pop()
            ins = self.refine(test, h, True, sink) if test is not None else [h]
            for s_out in self.refine(test, h, False, sink) if test is not None else []:
                for k, s3, info in self.block(orelse, [s_out], sink) if orelse else {(FALL, s_out, "")}:
                    if k == FALL:
                        exits.add(s3)
                    else:
                        outs.add((k, s3, info))
            for kind, s2, info in self.block(body, ins, sink):
                if kind == BRK:
                    exits.add(s2)
                elif kind == RET:
                    outs.add((RET, s2, info))
                elif s2 not in heads:
                    heads.add(s2)
                    work.append(s2)
        for s in exits:
            outs.add((FALL, s, ""))
        return outs

    def stmt(self, s: ast.stmt, st: St, sink: Optional[Set[str]]) -> Set[Tuple[str, St, str]]:
        if isinstance(s, ast.Return):
            info = self._ret_info(s.value)
            if isinstance(s.value, ast.Name) and not st.c:
                # an unconsumed path returning a witnessed local returns the "nothing" value
                if s.value.id in st.N:
                    info = "none"
                elif s.value.id in st.E:
                    info = "eof"
            return {(RET, self.expr(s.value, st, sink), info)}
        if isinstance(s, ast.Raise):
            return set()  # raising ends the parse: no obligation
        if isinstance(s, ast.Break):
            return {(BRK, st, "")}
        if isinstance(s, ast.Continue):
            return {(CONT, st, "")}
        if isinstance(s, ast.If):
            outs: Set[Tuple[str, St, str]] = set()
            outs |= self.block(s.body, self.refine(s.test, st, True, sink), sink)
            outs |= self.block(s.orelse, self.refine(s.test, st, False, sink), sink)
            return outs
        if isinstance(s, ast.While):
            test = None if (isinstance(s.test, ast.Constant) and s.test.value is True) else s.test
            return self._loop(test, s.body, s.orelse, st, sink)
        if isinstance(s, ast.For):
            st = self.expr(s.iter, st, sink)
            # zero or more iterations: the loop test is opaque
            outs = set()
            heads = {st}
            work = [st]
            exits = {st}
            while work:
                h = work.pop()
                for kind, s2, info in self.block(s.body, [h], sink):
                    if kind == RET:
                        outs.add((RET, s2, info))
                    else:
                        exits.add(s2)
                        if kind != BRK and s2 not in heads:
                            heads.add(s2)
                            work.append(s2)
            for e in exits:
                outs |= set(self.block(s.orelse, [e], sink)) if s.orelse else {(FALL, e, "")}
            return outs
        if isinstance(s, ast.Try):
            outs = self.block(s.body, [st], sink)
            # a handler starts from a state in which any part of the body may have run
            body_states = [st] + [x[1] for x in outs]
            weakest = body_states[0]
            for b in body_states[1:]:
                weakest = _join(weakest, b)
            weakest = _maybe_moved(weakest)
            for h in s.handlers:
                outs |= self.block(h.body, [weakest], sink)
            if s.orelse:
                outs = {o for o in outs if o[0] != FALL} | {o2 for o in outs if o[0] == FALL for o2 in self.block(s.orelse, [o[1]], sink)}
            if s.finalbody:
                res = set()
                for kind, s2, info in outs:
                    for k3, s3, i3 in self.block(s.finalbody, [s2], sink):
                        res.add((kind, s3, info) if k3 == FALL else (k3, s3, i3))
                outs = res
            return outs
        if isinstance(s, ast.With):
            rewinds = False
            for it in s.items:
                nm = self._self_method(it.context_expr)
                if nm and nm in self._restorers():
                    rewinds = True  # a look-ahead manager: whatever the body consumes is put back on leaving it
                    if sink is not None and not st.c:
                        sink.add((nm, st.ne))
                else:
                    st = self.expr(it.context_expr, st, sink)
            outs = self.block(s.body, [st], sink)
            if rewinds:
                outs = {(k, _RESET, i) for k, _, i in outs}
            return outs
        if isinstance(s, (ast.FunctionDef, ast.ClassDef, ast.Pass, ast.Import, ast.ImportFrom, ast.Global, ast.Nonlocal)):
            return {(FALL, st, "")}
        # simple statements: Expr, Assign, AugAssign, AnnAssign, Assert, Delete
        value = getattr(s, "value", None)
        if isinstance(s, ast.Expr) and isinstance(value, (ast.Yield, ast.YieldFrom, ast.Await)):
            value = value.value
        before = st
        st = self.expr(value, st, sink)
        if self._cursor_write(s):
            if self._forward_step(s):
                return {(FALL, _consumed(st), "")}
            j = self._jump(s, self._cur) if self._cur is not None else None
            if j == "forward":
                return {(FALL, _consumed(st), "")}
            if j == "stay":
                return {(FALL, _maybe_moved(st), "")}
            if j == "opaque":
                self.touched_opaque = True
                return {(FALL, _maybe_moved(st), "")}
            return {(FALL, _RESET, "")}
        if isinstance(s, (ast.Assign, ast.AnnAssign)):
            targets = s.targets if isinstance(s, ast.Assign) else [s.target]
            for t in targets:
                for nm in [x.id for x in ast.walk(t) if isinstance(x, ast.Name)]:
                    st = st._replace(W=st.W - {nm}, A=st.A - {nm}, E=st.E - {nm}, N=st.N - {nm}, P=st.P - {nm})
                if isinstance(t, ast.Name) and value is not None:
                    if isinstance(value, ast.Constant) and type(value.value) is int and value.value == 0:
                        st = st._replace(W=st.W | {t.id})
                    src = self._self_method(value)
                    if src in self.accessors and not value.args and st.c == before.c:
                        st = st._replace(A=st.A | {t.id})
                    if src in self.eof_or and not before.c:
                        # the call consumed, or returned the end token
                        st = st._replace(E=st.E | {t.id})
                    if src in self.none_or and not before.c:
                        st = st._replace(N=st.N | {t.id})
                    if norm(value) in self.cursors:
                        st = st._replace(P=st.P | {t.id})
        elif isinstance(s, ast.AugAssign) and isinstance(s.target, ast.Name):
            k = s.target.id
            inc = isinstance(s.op, ast.Add) and isinstance(s.value, ast.Constant) and type(s.value.value) is int and s.value.value > 0
            if isinstance(s.op, ast.Sub):
                pass  # a smaller counter keeps  k > 0 => c
            elif not (inc and st.c):
                st = st._replace(W=st.W - {k})
            st = st._replace(A=st.A - {k}, E=st.E - {k}, N=st.N - {k}, P=st.P - {k})
        return {(FALL, st, "")}

    # --------------------------------------------------------------------- fixpoint
    def outcomes(self, m: Func, entry: St, sink: Optional[Set[str]] = None) -> Set[Tuple[str, St, str]]:
        prev = self._cur
        self._cur = m
        try:
            return self.block(m.body(), [entry], sink)
        finally:
            self._cur = prev

    def _fixpoint(self) -> None:
        changed = True
        rounds = 0
        while changed:
            rounds += 1
            if rounds > 60:
                raise AnalysisError("front-end progress summaries do not stabilise")
            changed = False
            for name, m in self.methods.items():
                if name == "__init__" or name in self.may_rollback or isinstance(m.node, ast.Lambda):
                    continue
                outs = [(k, s, i) for k, s, i in self.outcomes(m, START) if k in (FALL, RET)]
                if name not in self.consumers and outs and all(s.c for _, s, _ in outs):
                    self.consumers.add(name)
                    changed = True
                if name in self.consumers:
                    continue
                if name not in self.eof_or and outs and all(s.c or i == "eof" for _, s, i in outs) and any(i == "eof" for _, _, i in outs):
                    self.eof_or.add(name)
                    changed = True
                if name not in self.none_or and outs and all(s.c or i == "none" for _, s, i in outs) and any(i == "none" for _, _, i in outs):
                    self.none_or.add(name)
                    changed = True
                if name not in self.cond and outs and any(i == "true" for _, _, i in outs) and all(k == RET and i in ("true", "false") for k, _, i in outs) and all(s.c for _, s, i in outs if i == "true"):
                    self.cond.add(name)
                    changed = True
                if name not in self.consumers_ne:
                    outs_ne = [(k, s, i) for k, s, i in self.outcomes(m, START._replace(ne=True)) if k in (FALL, RET)]
                    if outs_ne and all(s.c for _, s, _ in outs_ne):
                        self.consumers_ne.add(name)
                        changed = True


# ------------------------------------------------------------------------------------------------------
# local index loops: the index strictly increases on every iteration path
UNK, GE, GT = 0, 1, 2  # relation of a value to the index at the start of the iteration


class _Rel(NamedTuple):
    rel: int  # UNK / GE / GT
    neg: bool  # ... or a negative "not found" marker (str.find)


_R_UNK = _Rel(UNK, False)
Env = Dict[str, _Rel]


class _IndexLoop:
    """Abstract evaluation of integer expressions relative to `v0`, the loop index at the start of an iteration."""

    def __init__(self, ctx, f: Func, methods: Dict[str, Func], depth: int = 0):
        self.ctx, self.f, self.methods, self.depth = ctx, f, methods, depth

    def val(self, e: Optional[ast.AST], env: Env) -> _Rel:
        if isinstance(e, ast.Name):
            return env.get(e.id, _R_UNK)
        if isinstance(e, ast.Attribute) and norm(e) in env:
            return env[norm(e)]
        if isinstance(e, ast.BinOp) and isinstance(e.op, ast.Add):
            for a, b in ((e.left, e.right), (e.right, e.left)):
                if isinstance(b, ast.Constant) and type(b.value) is int:
                    r = self.val(a, env)
                    if r.neg or r.rel == UNK:
                        return _R_UNK  # -1 + 1 == 0
                    if b.value > 0:
                        return _Rel(GT, False)
                    return r if b.value == 0 else _R_UNK
                if isinstance(b, ast.Call) and norm(b.func) == "len":
                    r = self.val(a, env)
                    return _R_UNK if r.neg else r
            return _R_UNK
        if isinstance(e, ast.IfExp):
            a, b = self.val(e.body, self._refine(e.test, env, True)), self.val(e.orelse, self._refine(e.test, env, False))
            return _Rel(min(a.rel, b.rel), a.neg or b.neg)
        if isinstance(e, ast.Call):
            fn = e.func
            if isinstance(fn, ast.Name) and fn.id == "max" and e.args and not e.keywords:
                rs = [self.val(a, env) for a in e.args]
                good = [r.rel for r in rs if not r.neg]
                return _Rel(max(good), False) if good else _Rel(UNK, True)
            if isinstance(fn, ast.Name) and fn.id == "min" and e.args and not e.keywords:
                rs = [self.val(a, env) for a in e.args]
                return _Rel(min(r.rel for r in rs), any(r.neg for r in rs))
            if isinstance(fn, ast.Attribute) and fn.attr in ("find", "index") and len(e.args) >= 2 and not e.keywords:
                start = self.val(e.args[1], env)
                if start.neg or start.rel == UNK:
                    return _Rel(UNK, fn.attr == "find")
                return _Rel(start.rel, fn.attr == "find")
            if isinstance(fn, ast.Attribute) and norm(fn.value) == "self" and fn.attr in self.methods and self.depth < 2:
                return self._summary(self.methods[fn.attr], e, env)
        return _R_UNK

    def _summary(self, g: Func, call: ast.Call, env: Env) -> _Rel:
        params = [p for p in g.params() if p != "self"]
        genv: Env = {}
        for p, a in zip(params, call.args):
            genv[p] = self.val(a, env)
        sub = _IndexLoop(self.ctx, g, self.methods, self.depth + 1)
        rets: List[_Rel] = []
        sub.run(g.body(), [genv], rets, None, None)
        if not rets:
            return _R_UNK
        return _Rel(min(r.rel for r in rets), any(r.neg for r in rets))

    def run(self, stmts: List[ast.stmt], envs: List[Env], rets: List[_Rel], cont: Optional[List[Env]], brk: Optional[List[Env]]) -> List[Env]:
        cur = envs
        for s in stmts:
            nxt: List[Env] = []
            for env in cur:
                nxt += self.step(s, env, rets, cont, brk)
            cur = self._dedup(nxt)
            if not cur:
                break
        return cur

    @staticmethod
    def _dedup(envs: List[Env]) -> List[Env]:
        seen, out = set(), []
        for e in envs:
            k = tuple(sorted(e.items()))
            if k not in seen:
                seen.add(k)
                out.append(e)
        return out

    def _refine(self, t: Optional[ast.AST], env: Env, pol: bool) -> Env:
        """A test that excludes the negative marker: x < 0, x == -1, x >= 0, x != -1, x > 0 ..."""
        if t is None:
            return env
        if isinstance(t, ast.UnaryOp) and isinstance(t.op, ast.Not):
            return self._refine(t.operand, env, not pol)
        if isinstance(t, ast.BoolOp):
            if isinstance(t.op, ast.And) == pol:
                for v in t.values:
                    env = self._refine(v, env, pol)
            return env
        if isinstance(t, ast.Compare) and len(t.ops) == 1 and isinstance(t.left, ast.Name) and t.left.id in env:
            r, op, x = t.comparators[0], t.ops[0], t.left.id
            c = None
            if isinstance(r, ast.Constant) and type(r.value) is int:
                c = r.value
            elif isinstance(r, ast.UnaryOp) and isinstance(r.op, ast.USub) and isinstance(r.operand, ast.Constant) and type(r.operand.value) is int:
                c = -r.operand.value
            if c is None:
                return env
            nonneg_if_true = (isinstance(op, ast.GtE) and c >= 0) or (isinstance(op, ast.Gt) and c >= -1) or (isinstance(op, ast.NotEq) and c == -1)
            nonneg_if_false = (isinstance(op, ast.Lt) and c >= 0) or (isinstance(op, ast.LtE) and c >= -1) or (isinstance(op, ast.Eq) and c == -1)
            if (pol and nonneg_if_true) or (not pol and nonneg_if_false):
                env = dict(env)
                env[x] = _Rel(env[x].rel, False)
        return env

    def step(self, s: ast.stmt, env: Env, rets, cont, brk) -> List[Env]:
        if isinstance(s, ast.Return):
            rets.append(self.val(s.value, env) if s.value is not None else _R_UNK)
            return []
        if isinstance(s, ast.Raise):
            return []
        if isinstance(s, ast.Break):
            if brk is not None:
                brk.append(env)
            return []
        if isinstance(s, ast.Continue):
            if cont is not None:
                cont.append(env)
            return []
        if isinstance(s, ast.If):
            return self.run(s.body, [self._refine(s.test, env, True)], rets, cont, brk) + self.run(s.orelse, [self._refine(s.test, env, False)], rets, cont, brk)
        if isinstance(s, (ast.While, ast.For)):
            # inner loop: iterate to a fixpoint over the (finite) environments
            test = s.test if isinstance(s, ast.While) else None
            forever = isinstance(test, ast.Constant) and test.value is True
            seen = {tuple(sorted(env.items()))}
            exits: List[Env] = []
            work = [env]
            while work:
                h = work.pop()
                if not forever:
                    exits.append(self._refine(test, h, False))
                inner_cont: List[Env] = []
                inner_brk: List[Env] = []
                h_in = dict(self._refine(test, h, True))
                if isinstance(s, ast.For):
                    for nm in [x.id for x in ast.walk(s.target) if isinstance(x, ast.Name)]:
                        h_in[nm] = _R_UNK
                falls = self.run(s.body, [h_in], rets, inner_cont, inner_brk)
                exits += inner_brk
                for e2 in falls + inner_cont:
                    k = tuple(sorted(e2.items()))
                    if k not in seen:
                        seen.add(k)
                        work.append(e2)
            return self._dedup(exits)
        if isinstance(s, ast.Try):
            outs = self.run(s.body, [env], rets, cont, brk)
            weakest = {k: _R_UNK for k in env}
            for h in s.handlers:
                outs = outs + self.run(h.body, [weakest], rets, cont, brk)
            if s.finalbody:
                outs = self.run(s.finalbody, outs, rets, cont, brk)
            return outs
        if isinstance(s, ast.With):
            return self.run(s.body, [env], rets, cont, brk)
        if isinstance(s, ast.Assign) and len(s.targets) == 1 and isinstance(s.targets[0], ast.Name):
            env = dict(env)
            env[s.targets[0].id] = self.val(s.value, env)
            return [env]
        if isinstance(s, ast.AugAssign) and isinstance(s.target, ast.Name):
            env = dict(env)
            if isinstance(s.op, ast.Add):
                env[s.target.id] = self.val(ast.BinOp(left=ast.Name(id=s.target.id, ctx=ast.Load()), op=ast.Add(), right=s.value), env)
            else:
                env[s.target.id] = _R_UNK
            return [env]
        if isinstance(s, (ast.Assign, ast.AnnAssign, ast.AugAssign)):
            env = dict(env)
            for t in s.targets if isinstance(s, ast.Assign) else [s.target]:
                for x in ast.walk(t):
                    if isinstance(x, ast.Name):
                        env[x.id] = _R_UNK
            return [env]
        return [env]


def index_loops(f: Func) -> List[Tuple[ast.While, str]]:
    """while loops whose test bounds a local integer from above: `i < E`, `i <= E`, possibly inside an `and`."""
    out = []
    for loop in f.own_nodes():
        if not isinstance(loop, ast.While):
            continue
        conj = loop.test.values if isinstance(loop.test, ast.BoolOp) and isinstance(loop.test.op, ast.And) else [loop.test]
        for t in conj:
            if isinstance(t, ast.Compare) and len(t.ops) == 1 and isinstance(t.ops[0], (ast.Lt, ast.LtE)) and isinstance(t.left, ast.Name):
                out.append((loop, t.left.id))
                break
    return out


def check_index_loop(ctx, f: Func, loop: ast.While, var: str, methods: Dict[str, Func]) -> Optional[str]:
    """None when every iteration path assigns the index a greater value; else a description of the path."""
    il = _IndexLoop(ctx, f, methods)
    env0: Env = {var: _Rel(GE, False)}
    rets: List[_Rel] = []
    cont: List[Env] = []
    brk: List[Env] = []
    falls = il.run(loop.body, [env0], rets, cont, brk)
    for e in falls + cont:
        r = e.get(var, _R_UNK)
        if r.rel != GT or r.neg:
            if r.neg:
                why = "can be a negative not-found marker (str.find) plus an offset"
            elif r == _Rel(GE, False):
                why = "is not moved"
            else:
                why = "is assigned a value that is not provably beyond its previous value"
            return f"on some path through the body `{var}` {why}"
    return None


# ------------------------------------------------------------------------------------------------------
def rule_frontend_progress(ctx, rep, rid: str, modules: Tuple[str, ...] = FRONT_MODULES, floor: int = 30) -> None:
    rep.rule(rid, "no loop of the lexer, the parser or the regex parser can complete an iteration, and no parse function can re-enter itself, without having consumed input in between (progress of every iteration, no left recursion); loops over a local index move it strictly forward on every path", floor=floor)
    t = ctx.tree
    n_loops = 0
    n_unjudged = 0
    for modname in modules:
        mod = t.mod(modname)
        for ci in mod.classes.values():
            meths = [m for m in ci.all_methods]
            pg = _Progress(ctx, ci)
            if not pg.cursors:
                continue
            if not pg.consumers and not pg.consumers_ne:
                raise AnalysisError(f"{ci.name}: cursor writes found but no consuming method recognised")
            rep.analysed.setdefault("frontend_summaries", {})[ci.name] = {"consumers": sorted(pg.consumers), "consumers_when_not_at_end": sorted(pg.consumers_ne - pg.consumers), "conditional": sorted(pg.cond), "consumer_or_end_token": sorted(pg.eof_or), "consumer_or_none": sorted(pg.none_or), "accessors": pg.accessors, "may_roll_back": sorted(pg.may_rollback)}
            # the token parser's primitive step relies on the scanner's next_token
            if "self.current" in pg.cursors:
                lex = next((c for c in t.mod("lexer").classes.values() if "next_token" in {m.name for m in c.all_methods}), None)
                if lex is None:
                    raise AnalysisError("scanner class with next_token not found")
                lpg = _Progress(ctx, lex)
                key = f"{lex.name}.next_token:consumes-or-end-token"
                if "next_token" in lpg.eof_or or "next_token" in lpg.consumers:
                    rep.ok(rid, key)
                elif "next_token" in lpg.opaque:
                    rep.ok(rid, key, {"kind": "moves the cursor by an absolute jump to a computed offset: not judged"})
                    n_unjudged += 1
                else:
                    rep.bad(rid, key, f"{lex.name}.next_token can return a token other than the end marker without having moved the scanner: the parser's _advance then makes no progress", lpg.methods["next_token"].loc)
            idx = {id(l): v for m in meths for l, v in index_loops(m)}
            for m in meths:
                for loop in m.own_nodes():
                    if not isinstance(loop, ast.While):
                        continue
                    n_loops += 1
                    key = f"{m.qual}:while {short(loop.test, 40)}"
                    loc = f"{m.module.rel}:{loop.lineno}"
                    idx_why = None
                    if id(loop) in idx:
                        idx_why = check_index_loop(ctx, m, loop, idx[id(loop)], pg.methods)
                        if idx_why is None:
                            rep.ok(rid, key, {"kind": "local index", "index": idx[id(loop)]})
                            continue
                    # judged by the cursor
                    pg._cur = m
                    pg.touched_opaque = False
                    test = None if (isinstance(loop.test, ast.Constant) and loop.test.value is True) else loop.test
                    ins = pg.refine(test, START, True, None) if test is not None else [START]
                    body = pg.block(loop.body, ins)
                    pg._cur = None
                    stuck = [(k, s) for k, s, _ in body if k in (FALL, CONT) and not s.c]
                    if not stuck:
                        rep.ok(rid, key, {"kind": "cursor"})
                    elif pg.touched_opaque:
                        # the body moves the cursor by an absolute jump whose target this analysis cannot order
                        rep.ok(rid, key, {"kind": "cursor moved by an absolute jump to a computed offset: not judged"})
                        n_unjudged += 1
                    elif idx_why is not None:
                        rep.bad(rid, key, f"{m.qual}: in `while {short(loop.test, 50)}` {idx_why}: the loop can spin forever on some input", loc)
                    elif not any(isinstance(x, ast.Attribute) and norm(x).startswith("self.") and (norm(x) in pg.cursors or x.attr in pg.may_consume or x.attr in pg.accessors or x.attr in pg.end_methods) for part in [loop.test] + loop.body for x in ast.walk(part)):
                        # neither driven by the cursor nor an index loop of the recognised shape: its termination is
                        # a property of local values this rule does not judge
                        rep.ok(rid, key, {"kind": "local loop, not judged"})
                        n_unjudged += 1
                    else:
                        rep.bad(rid, key, f"{m.qual}: an iteration of `while {short(loop.test, 50)}` can end without consuming input (no cursor advance, token advance or consuming parse call on that path): the front end can spin forever on some input", loc)
            # left recursion: (function, not-at-end?) contexts reachable through calls made before anything was consumed
            first: Dict[Tuple[str, bool], Set[Tuple[str, bool]]] = {}
            every: Dict[Tuple[str, bool], Set[Tuple[str, bool]]] = {}

            def first_of(node: Tuple[str, bool]) -> Set[Tuple[str, bool]]:
                if node not in first:
                    first[node] = set()
                    every[node] = set()
                    m_ = pg.methods.get(node[0])
                    if m_ is not None and not isinstance(m_.node, ast.Lambda):
                        sink: Set[Tuple[str, bool]] = set()
                        pg._allcalls = set()
                        pg.outcomes(m_, START._replace(ne=node[1]), sink)
                        every[node] = {x for x in pg._allcalls if x[0] in pg.methods}
                        pg._allcalls = None
                        first[node] = {x for x in sink if x[0] in pg.methods}
                return first[node]

            # contexts in which each method is really entered: from the methods nobody in the class calls
            called = {c for m_ in meths for c in pg._self_calls(m_)}
            roots = [(m_.name, False) for m_ in meths if m_.name not in called and m_.name != "__init__"]
            reach: Set[Tuple[str, bool]] = set()
            work = list(roots)
            while work:
                x = work.pop()
                if x in reach:
                    continue
                reach.add(x)
                first_of(x)
                work.extend(every[x])
            rep.analysed["frontend_summaries"][ci.name]["entry_points"] = sorted(r[0] for r in roots)

            for m in meths:
                if not m.name.startswith(("_parse", "parse", "_continue", "_read", "_skip", "_try", "next_token")):
                    continue
                path_found = False
                for ctx_ne in (False, True):
                    if (m.name, ctx_ne) not in reach:
                        continue
                    seen: Set[Tuple[str, bool]] = set()
                    work = list(first_of((m.name, ctx_ne)))
                    while work:
                        x = work.pop()
                        if x[0] == m.name:
                            path_found = True
                            break
                        if x in seen:
                            continue
                        seen.add(x)
                        work.extend(first_of(x))
                key = f"{m.qual}:left-recursion"
                if path_found and (m.name in pg.opaque or any(x[0] in pg.opaque for x in seen)):
                    rep.ok(rid, key, {"kind": "the cycle passes a function that moves the cursor by an absolute jump: not judged"})
                    n_unjudged += 1
                elif path_found:
                    rep.bad(rid, key, f"{m.qual} can call itself again (directly or through other parse functions) before any input was consumed: unbounded recursion on some input", m.loc)
                else:
                    rep.ok(rid, key)
    rep.analysed["frontend_loops"] = n_loops
    rep.analysed["frontend_loops_not_judged"] = n_unjudged
