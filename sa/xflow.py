"""E2 (explicit part): which deliberately raised exception classes can escape from which function.

Origins are `raise K(...)` statements; propagation follows the call graph (resolved,
by-name and dynamic edges) and is filtered by the try/except handlers that lexically
enclose each raise / call site, using the real class hierarchy.
"""

from __future__ import annotations

import ast
from typing import Dict, FrozenSet, List, Optional, Set, Tuple

from .core import AnalysisError, Func, Module, call_name, norm, short, walk_no_nested

Origin = Tuple[str, str, int, str]  # (function qual, class name, line, normalised raise text)


class XFlow:
    def __init__(self, ctx):
        self.ctx = ctx
        self.t = ctx.tree
        self.cg = ctx.cg
        self.esc: Dict[int, Set[Origin]] = {id(f): set() for f in self.t.funcs}
        self.origin_mod: Dict[Origin, Module] = {}
        self._local: Dict[int, List[Tuple[Origin, ast.AST]]] = {}
        self._anc_cache: Dict[Tuple[str, str], List[str]] = {}
        self._collect_local()
        self._fixpoint()

    # --------------------------------------------------------------- helpers
    def raise_class(self, r: ast.Raise, f: Func) -> Optional[str]:
        e = r.exc
        if e is None:
            return None  # bare re-raise
        if isinstance(e, ast.Name):
            # `raise e` where e is a handler-bound name: re-raise
            for p in _parents(r):
                if isinstance(p, ast.ExceptHandler) and p.name == e.id:
                    return None
            # `err = SomeError(..); err.x = ..; raise err`: the class every assignment of the local constructs
            if not isinstance(f.node, ast.Lambda):
                built = [a.value for a in f.own_nodes() if isinstance(a, ast.Assign) and any(isinstance(t, ast.Name) and t.id == e.id for t in a.targets)]
                classes = set()
                for v in built:
                    if isinstance(v, ast.Call) and isinstance(v.func, ast.Name) and (self.cg._class_visible(v.func.id, f) is not None or v.func.id[:1].isupper()):
                        classes.add(v.func.id)
                    else:
                        classes.add(None)
                if built and len(classes) == 1 and None not in classes:
                    return classes.pop()
            return e.id
        if isinstance(e, ast.Call):
            fn = e.func
            if isinstance(fn, ast.Name):
                ci = self.cg._class_visible(fn.id, f)
                if ci is not None:
                    return ci.name
                if fn.id[:1].isupper():
                    return fn.id
            if isinstance(fn, ast.Attribute):
                # raise self._error("...") -> return annotation
                for tgt in self.cg._resolve_attr_call(fn, f):
                    r2 = getattr(tgt.node, "returns", None)
                    if r2 is not None:
                        return norm(r2).strip("'\"")
                if fn.attr[:1].isupper():
                    return fn.attr
            return "Exception"
        return "Exception"

    def ancestors(self, mod: Module, cls: str) -> List[str]:
        k = (mod.name, cls)
        if k not in self._anc_cache:
            self._anc_cache[k] = self.t.exc_ancestors(mod, cls)
        return self._anc_cache[k]

    def _filter(self, node: ast.AST, f: Func, origins: Set[Origin]) -> Set[Origin]:
        """Origins that survive the try/except statements of f enclosing node."""
        out = set(origins)
        child = node
        p = getattr(node, "_parent", None)
        while p is not None and p is not f.node and out:
            if isinstance(p, ast.Try) and any(child is s for s in p.body):
                keep = set()
                for o in out:
                    mod = self.origin_mod.get(o, f.module)
                    anc = set(self.ancestors(mod, o[1]))
                    caught = False
                    for h in p.handlers:
                        if h.type is None:
                            names = None
                        else:
                            ts = h.type.elts if isinstance(h.type, ast.Tuple) else [h.type]
                            names = {norm(x).split(".")[-1] for x in ts}
                        if names is None or (names & anc):
                            caught = not _transparent(h)
                            break
                    if not caught:
                        keep.add(o)
                out = keep
            child = p
            p = getattr(p, "_parent", None)
        return out

    # ------------------------------------------------------------- analysis
    def _collect_local(self) -> None:
        for f in self.t.funcs:
            lst = []
            for n in f.own_nodes():
                if isinstance(n, ast.Raise):
                    cls = self.raise_class(n, f)
                    if cls is None:
                        continue
                    o: Origin = (f.qual, cls.split(".")[-1], n.lineno, short(n, 100))
                    self.origin_mod[o] = f.module
                    lst.append((o, n))
            self._local[id(f)] = lst

    def _fixpoint(self) -> None:
        natives = [v[0] for v in self.cg.natives.values()]
        for f in self.t.funcs:
            for o, n in self._local[id(f)]:
                self.esc[id(f)] |= self._filter(n, f, {o})
        changed = True
        rounds = 0
        while changed:
            changed = False
            rounds += 1
            if rounds > 60:
                raise AnalysisError("exception-flow fixpoint did not converge")
            for f in self.t.funcs:
                cur = self.esc[id(f)]
                add: Set[Origin] = set()
                for cs in self.cg.sites_of[id(f)]:
                    tg = list(cs.targets)
                    if cs.kind == "dynamic":
                        tg = tg + natives
                    inc: Set[Origin] = set()
                    for t in tg:
                        inc |= self.esc[id(t)]
                    inc -= cur
                    if inc:
                        add |= self._filter(cs.call, f, inc)
                if add - cur:
                    cur |= add
                    changed = True

    def escapes(self, f: Func) -> Set[Origin]:
        return self.esc[id(f)]


def _parents(n):
    p = getattr(n, "_parent", None)
    while p is not None:
        yield p
        p = getattr(p, "_parent", None)


def _transparent(h: ast.ExceptHandler) -> bool:
    """Handler that always re-raises what it caught."""
    if not h.body:
        return False
    last = h.body[-1]
    return isinstance(last, ast.Raise) and (last.exc is None or (isinstance(last.exc, ast.Name) and last.exc.id == h.name)) and len(h.body) == 1


def get(ctx) -> XFlow:
    if getattr(ctx, "_xflow", None) is None:
        ctx._xflow = XFlow(ctx)
    return ctx._xflow
