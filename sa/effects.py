"""E3 step 1: operand-stack effect of every opcode, derived from the dispatcher's source.

effect(X) is a set of outcomes; an outcome is (const, coef_of_arg, last_pushed_literal).
Nothing is executed: the handler bodies are walked path by path, counting
self.stack.pop()/append() and inlining the VM helpers that touch the stack.
"""

from __future__ import annotations

import ast
from typing import Dict, List, Optional, Set, Tuple

from .core import AnalysisError, Func, norm, walk_no_nested

Outcome = Tuple[int, int, object]  # (const, coef*arg, last pushed literal or None)

ARG = "<arg>"


class OpEffect:
    def __init__(self, name: str):
        self.name = name
        self.outcomes: Set[Outcome] = set()
        self.terminal = False  # control never falls through to the next instruction
        self.jump = False  # may assign frame.ip
        self.pushes_frame = False
        self.line = 0

    def single(self) -> Optional[Tuple[int, int]]:
        ds = {(c, a) for c, a, _ in self.outcomes}
        return next(iter(ds)) if len(ds) == 1 else None

    def describe(self) -> str:
        def f(c, a):
            s = []
            if a:
                s.append(f"{a:+d}*n")
            s.append(f"{c:+d}")
            return "".join(s)

        outs = sorted({(c, a, repr(l)) for c, a, l in self.outcomes})
        body = " | ".join(f(c, a) + (f"[{l}]" if l != "None" else "") for c, a, l in outs)
        return body + (" terminal" if self.terminal else "") + (" jump" if self.jump else "")


class _Path:
    __slots__ = ("c", "a", "last", "ended", "terminal", "jump", "frame", "raised")

    def __init__(self, c=0, a=0, last=None, ended=False, terminal=False, jump=False, frame=False, raised=False):
        self.c, self.a, self.last, self.ended, self.terminal, self.jump, self.frame, self.raised = c, a, last, ended, terminal, jump, frame, raised

    def copy(self):
        return _Path(self.c, self.a, self.last, self.ended, self.terminal, self.jump, self.frame, self.raised)


class EffectDeriver:
    def __init__(self, ctx):
        self.ctx = ctx
        self.df, self.chain = ctx.facts.vm_dispatcher()
        self.cls = self.df.cls
        self.touchers = self._stack_touchers()
        self.frame_pushers = {m.name for m in self._frame_pushers()}
        self.frame_poppers = self._frame_poppers()
        self.effects: Dict[str, OpEffect] = {}
        self.notes: List[str] = []
        self._derive()

    # ------------------------------------------------------------------ helpers
    def _stack_touchers(self) -> Dict[str, Func]:
        loopf = {f.name for f, _ in self.ctx.facts.dispatch_loops()} | {f.name for f in self.ctx.facts.dispatch_wrappers()}
        out = {}
        for m in self.cls.methods.values():
            if m is self.df or m.name in loopf or m.name == "run":
                continue
            for n in m.own_nodes():
                if isinstance(n, ast.Call) and norm(n.func) in ("self.stack.pop", "self.stack.append"):
                    out[m.name] = m
                    break
                if isinstance(n, ast.Delete) and any("self.stack" in norm(t) for t in n.targets):
                    out[m.name] = m
                    break
        # helpers that call a toucher also count (e.g. _handle_python_exception -> _throw)
        changed = True
        while changed:
            changed = False
            for m in self.cls.methods.values():
                if m.name in out or m is self.df or m.name in loopf or m.name == "run":
                    continue
                for n in m.own_nodes():
                    if isinstance(n, ast.Call) and isinstance(n.func, ast.Attribute) and norm(n.func.value) == "self" and n.func.attr in out:
                        if out[n.func.attr].name in ("_throw",) or True:
                            out[m.name] = m
                            changed = True
                            break
        return out

    def _frame_pushers(self) -> List[Func]:
        out = []
        helpers = set()  # accounting helpers: append the frame they are handed
        for m in self.cls.methods.values():
            if m.name == "run":
                continue
            for n in m.own_nodes():
                if isinstance(n, ast.Call) and norm(n.func) == "self.call_stack.append":
                    out.append(m)
                    if n.args and isinstance(n.args[0], ast.Name) and n.args[0].id in m.params():
                        helpers.add(m.name)
                    break
        # whoever builds a frame and hands it to such a helper pushes a frame
        for m in self.cls.methods.values():
            if m.name == "run" or m in out:
                continue
            if any(isinstance(n, ast.Call) and isinstance(n.func, ast.Attribute) and norm(n.func.value) == "self" and n.func.attr in helpers for n in m.own_nodes()):
                out.append(m)
        return out

    def _frame_poppers(self) -> set:
        """Helpers that take the running frame off the call stack (and account for it): calling one ends the
        instruction's view of the operand stack just like self.call_stack.pop()."""
        out = set()
        for m in self.cls.methods.values():
            if isinstance(m.node, ast.Lambda) or [p for p in m.params() if p != "self"]:
                continue
            if any(isinstance(n, ast.Call) and norm(n.func) == "self.call_stack.pop" for n in m.own_nodes()) and not any(isinstance(n, ast.Call) and norm(n.func) in ("self.stack.pop", "self.stack.append") for n in m.own_nodes()):
                out.add(m.name)
        return out

    # --------------------------------------------------------------- derivation
    def _derive(self) -> None:
        for members, body, ifnode in self.chain.branches:
            paths = self._block(body, [_Path()], {"arg": ARG}, depth=0)
            for mname in members:
                eff = OpEffect(mname)
                eff.line = ifnode.lineno
                live = [p for p in paths if not p.raised]  # drop raise-paths
                if not live:
                    raise AnalysisError(f"opcode {mname}: every path raises")
                for p in live:
                    eff.outcomes.add((p.c, p.a, p.last if isinstance(p.last, bool) else None))
                eff.terminal = all(p.terminal for p in live)
                eff.jump = any(p.jump for p in live)
                eff.pushes_frame = any(p.frame for p in live)
                # collapse literal tags unless the outcomes genuinely differ in delta
                if len({(c, a) for c, a, _ in eff.outcomes}) == 1:
                    c, a, _ = next(iter(eff.outcomes))
                    eff.outcomes = {(c, a, None)}
                self.effects[mname] = eff

    def _block(self, stmts: List[ast.stmt], paths: List[_Path], env: Dict[str, str], depth: int) -> List[_Path]:
        for s in stmts:
            nxt: List[_Path] = []
            run = [p for p in paths if not p.ended]
            done = [p for p in paths if p.ended]
            if not run:
                return paths
            nxt = self._stmt(s, run, env, depth)
            paths = done + nxt
            if len(paths) > 4000:
                raise AnalysisError("path explosion in opcode handler")
        return paths

    def _stmt(self, s: ast.stmt, paths: List[_Path], env, depth) -> List[_Path]:
        if isinstance(s, ast.If):
            tst = norm(s.test)
            # the handler's own "stack not empty" guard: assume non-empty
            if tst in ("self.stack",):
                ps = self._expr(s.test, paths, env, depth)
                return self._block(s.body, ps, env, depth)
            # `if not n: return []` — the n == 0 special case of a helper has the same linear effect (0 = -1*0)
            if isinstance(s.test, ast.UnaryOp) and isinstance(s.test.op, ast.Not) and isinstance(s.test.operand, ast.Name) and env.get(s.test.operand.id) == ARG and not s.orelse:
                return paths
            ps = self._expr(s.test, paths, env, depth)
            a = self._block(s.body, [p.copy() for p in ps], env, depth)
            b = self._block(s.orelse, [p.copy() for p in ps], env, depth) if s.orelse else [p.copy() for p in ps]
            return self._dedup(a + b)
        if isinstance(s, ast.For):
            # for _ in range(X): body
            it = s.iter
            body_paths = self._block(s.body, [_Path()], env, depth)
            body_paths = [p for p in body_paths if not p.raised]
            deltas = {(p.c, p.a) for p in body_paths}
            if deltas <= {(0, 0)} and not any(p.terminal or p.jump or p.frame for p in body_paths):
                return paths  # loop does not touch the operand stack
            if isinstance(it, ast.Call) and norm(it.func) == "range" and len(it.args) == 1 and len(deltas) == 1:
                (c, a) = next(iter(deltas))
                cnt = it.args[0]
                if a == 0 and isinstance(cnt, ast.Name) and env.get(cnt.id) == ARG:
                    for p in paths:
                        p.a += c
                        p.last = None
                    return paths
            raise AnalysisError(f"cannot summarise stack effect of loop at line {s.lineno}: {norm(it)}")
        if isinstance(s, ast.While):
            body_paths = self._block(s.body, [_Path()], env, depth)
            if all((p.c, p.a) == (0, 0) and not p.terminal for p in body_paths if not p.raised):
                return paths
            # unwinding loop in _throw: `while len(self.call_stack) > n: self.call_stack.pop()` has no operand effect
            raise AnalysisError(f"cannot summarise stack effect of while loop at line {s.lineno}")
        if isinstance(s, ast.Raise):
            ps = self._expr(s.exc, paths, env, depth) if s.exc is not None else paths
            for p in ps:
                p.ended = True
                p.raised = True
            return ps
        if isinstance(s, ast.Return):
            ps = self._expr(s.value, paths, env, depth) if s.value is not None else paths
            for p in ps:
                p.ended = True  # a return from an inlined helper is resumed by the caller
            return ps
        if isinstance(s, ast.Try):
            ps = self._block(s.body, paths, env, depth)
            return ps
        if isinstance(s, (ast.FunctionDef, ast.ClassDef, ast.Pass, ast.Import, ast.ImportFrom, ast.Break, ast.Continue)):
            # break/continue only occur in loops that do not touch the operand stack (checked by the loop summary)
            return paths
        # simple statements: walk expressions in evaluation order
        ps = paths
        if isinstance(s, ast.Assign):
            ps = self._expr(s.value, ps, env, depth)
            for t in s.targets:
                if norm(t) == "frame.ip":
                    for p in ps:
                        p.jump = True
                if isinstance(t, ast.Subscript) and norm(t.value) == "self.stack" and not isinstance(t.slice, ast.Slice):
                    pass
                if isinstance(t, ast.Subscript) and norm(t.value) == "self.stack" and isinstance(t.slice, ast.Slice):
                    raise AnalysisError(f"slice assignment to the operand stack at line {s.lineno} is not modelled")
                if norm(t) == "self.stack":
                    raise AnalysisError(f"operand stack rebound at line {s.lineno} is not modelled")
            return ps
        if isinstance(s, ast.AugAssign):
            return self._expr(s.value, ps, env, depth)
        if isinstance(s, ast.AnnAssign):
            return self._expr(s.value, ps, env, depth) if s.value is not None else ps
        if isinstance(s, ast.Expr):
            return self._expr(s.value, ps, env, depth)
        if isinstance(s, ast.Delete):
            for t in s.targets:
                if "self.stack" not in norm(t):
                    continue
                # `del self.stack[-n:]` removes exactly n operands (n = the instruction's operand count)
                if isinstance(t, ast.Subscript) and norm(t.value) == "self.stack" and isinstance(t.slice, ast.Slice) and t.slice.upper is None and t.slice.step is None and isinstance(t.slice.lower, ast.UnaryOp) and isinstance(t.slice.lower.op, ast.USub):
                    cnt = t.slice.lower.operand
                    if isinstance(cnt, ast.Name) and env.get(cnt.id) == ARG:
                        for p in ps:
                            p.a -= 1
                            p.last = None
                        continue
                    if isinstance(cnt, ast.Constant) and isinstance(cnt.value, int):
                        for p in ps:
                            p.c -= cnt.value
                            p.last = None
                        continue
                if not all(p.terminal for p in ps):
                    # absolute truncation is only understood after the frame was popped (RETURN*) or inside _throw
                    raise AnalysisError(f"del on the operand stack at line {s.lineno} is not modelled")
            return ps
        raise AnalysisError(f"unsupported statement in opcode handler at line {s.lineno}: {type(s).__name__}")

    def _dedup(self, ps: List[_Path]) -> List[_Path]:
        seen = {}
        for p in ps:
            k = (p.c, p.a, p.last if isinstance(p.last, bool) else None, p.ended, p.terminal, p.jump, p.frame, p.raised)
            seen.setdefault(k, p)
        return list(seen.values())

    def _expr(self, e: Optional[ast.AST], paths: List[_Path], env, depth) -> List[_Path]:
        """Apply the stack effects of evaluating e (in evaluation order) to every path."""
        if e is None:
            return paths
        if isinstance(e, ast.IfExp):
            if norm(e.test) == "self.stack":
                return self._expr(e.body, paths, env, depth)
            ps = self._expr(e.test, paths, env, depth)
            a = self._expr(e.body, [p.copy() for p in ps], env, depth)
            b = self._expr(e.orelse, [p.copy() for p in ps], env, depth)
            return self._dedup(a + b)
        if isinstance(e, (ast.Lambda, ast.FunctionDef)):
            return paths
        if isinstance(e, ast.Call):
            fn = norm(e.func)
            # arguments first (evaluation order), except the receiver which has no effect here
            ps = paths
            if isinstance(e.func, ast.Attribute):
                ps = self._expr(e.func.value, ps, env, depth) if not fn.startswith("self.stack.") else ps
            for a in e.args:
                ps = self._expr(a.value if isinstance(a, ast.Starred) else a, ps, env, depth)
            for k in e.keywords:
                ps = self._expr(k.value, ps, env, depth)
            if fn == "self.stack.pop":
                if e.args:
                    raise AnalysisError(f"self.stack.pop(i) at line {e.lineno} is not modelled")
                for p in ps:
                    p.c -= 1
                    p.last = None
                return ps
            if fn == "self.stack.append":
                lit = e.args[0].value if e.args and isinstance(e.args[0], ast.Constant) and isinstance(e.args[0].value, bool) else None
                for p in ps:
                    p.c += 1
                    p.last = lit
                return ps
            if fn == "self.call_stack.pop":
                for p in ps:
                    p.terminal = True  # the running frame is gone: the rest belongs to the caller
                return ps
            if fn.startswith("self.stack.") and fn.split(".")[-1] in ("insert", "extend", "clear", "remove"):
                raise AnalysisError(f"{fn} at line {e.lineno} is not modelled")
            if isinstance(e.func, ast.Attribute) and norm(e.func.value) == "self":
                name = e.func.attr
                if name in self.frame_poppers:
                    for p in ps:
                        p.terminal = True
                    return ps
                if name in self.frame_pushers:
                    for p in ps:
                        p.c += 1  # the callee's RETURN* pushes exactly one value for the caller
                        p.frame = True
                        p.last = None
                    return ps
                if name in self.touchers:
                    return self._inline(self.touchers[name], e, ps, env, depth)
            return ps
        if isinstance(e, ast.Subscript):
            ps = self._expr(e.value, paths, env, depth)
            return self._expr(e.slice, ps, env, depth)
        ps = paths
        for ch in ast.iter_child_nodes(e):
            if isinstance(ch, (ast.expr,)):
                ps = self._expr(ch, ps, env, depth)
            elif isinstance(ch, ast.comprehension):
                ps = self._expr(ch.iter, ps, env, depth)
                if any(isinstance(x, ast.Call) and norm(x.func) in ("self.stack.pop", "self.stack.append") for x in ast.walk(e)):
                    raise AnalysisError(f"stack access inside a comprehension at line {e.lineno}")
        return ps

    def _inline(self, helper: Func, call: ast.Call, paths: List[_Path], env, depth) -> List[_Path]:
        if depth >= 3:
            raise AnalysisError(f"helper inlining too deep at {helper.qual}")
        params = [a.arg for a in helper.node.args.args][1:]
        henv: Dict[str, str] = {}
        for i, a in enumerate(call.args):
            if i < len(params) and isinstance(a, ast.Name) and env.get(a.id) == ARG:
                henv[params[i]] = ARG
        if helper.name == "_throw":
            # control continues at a handler (or the exception leaves the interpreter)
            for p in paths:
                p.ended = True
                p.terminal = True
            return paths
        out: List[_Path] = []
        for p in paths:
            sub = self._block(helper.body(), [p.copy()], henv, depth + 1)
            for q in sub:
                if q.ended and not q.terminal and not q.raised:
                    q.ended = False  # `return` inside the helper: resume in the caller
                out.append(q)
        return self._dedup(out)


def derive(ctx) -> Dict[str, OpEffect]:
    if getattr(ctx, "_effects", None) is None:
        ctx._effects = EffectDeriver(ctx)
    return ctx._effects.effects
